// C17 — HDF5 checkpoint files return exactly what was stored.
//
// State-machine check: a generated sequence of operations over ONE checkpoint file
//   reopen(READ|MODIFY|CREATE) / write(path,name,value) (fresh, overwrite same shape, other shape, other type;
//   on a READ handle = attempt to modify) / read of a name that was never written
// is executed against the real CheckpointFile/Writer/Reader/CptTable.  After every step the file is read
// through a FRESH CheckpointFile(READ) and compared with an in-memory model map<(path,name),value>:
// bit-identical values (memcmp on doubles, equal shapes), both directions (the attributes/objects present in
// every group are exactly the ones of the model), std::runtime_error for unknown names, no change through
// READ handles.
//
// Every case runs in a fork()ed child: HDF5 keeps global state, and the predicted defect classes include heap
// over-reads inside H5Dwrite (ASan abort) — the child publishes "what I am doing now" in shared memory, so a
// death is attributed to the proper key instead of the generic sanitizer key.
#include "vv_common.h"

#include <votca/xtp/checkpoint.h>
#include <votca/xtp/staticsite.h>

#include <sys/mman.h>
#include <sys/wait.h>

#include <climits>
#include <filesystem>

using namespace vv;
using votca::Index;
namespace xtp = votca::xtp;
namespace fs = std::filesystem;

static const char *K_SHAPE = "Checkpoint/overwrite-shape-change";
static const char *K_TYPE = "Checkpoint/overwrite-type-change";
static const char *K_EMPTYMAT = "Checkpoint/empty-matrix-shape";
static const char *K_EMPTYSTR = "Checkpoint/empty-string-in-vector";

// ------------------------------------------------------------------ doubles <-> json (bit exact)
static json jd(double x) {
  if (std::isfinite(x) && !(x == 0.0 && std::signbit(x))) return x;
  uint64_t b;
  memcpy(&b, &x, 8);
  char buf[40];
  snprintf(buf, sizeof buf, "bits:%016llx", (unsigned long long)b);
  return std::string(buf);
}
static double dj(const json &j) {
  if (j.is_string()) {
    std::string s = j.get<std::string>();
    uint64_t b = strtoull(s.c_str() + 5, nullptr, 16);
    double x;
    memcpy(&x, &b, 8);
    return x;
  }
  return j.get<double>();
}
static uint64_t bits(double x) {
  uint64_t b;
  memcpy(&b, &x, 8);
  return b;
}
static double from_bits(uint64_t b) {
  double x;
  memcpy(&x, &b, 8);
  return x;
}
static const std::vector<double> &specials() {
  static const std::vector<double> s = {0.0,
                                        -0.0,
                                        1.0,
                                        -1.5,
                                        0.1,
                                        4.9406564584124654e-324,
                                        -4.9406564584124654e-324,
                                        1e-310,
                                        2.2250738585072014e-308,
                                        1.7976931348623157e308,
                                        -1.7976931348623157e308,
                                        std::numeric_limits<double>::infinity(),
                                        -std::numeric_limits<double>::infinity(),
                                        std::numeric_limits<double>::quiet_NaN(),
                                        from_bits(0x7ff8000000001234ull),
                                        from_bits(0xfff8000000000000ull),
                                        3.141592653589793};
  return s;
}
// deterministic content of seeded arrays (pure function of the case)
static double elem(long seed, long k) {
  uint64_t h = uint64_t(seed) * 0x9E3779B97F4A7C15ull + uint64_t(k + 1) * 0xBF58476D1CE4E5B9ull;
  h ^= h >> 31;
  h *= 0x94D049BB133111EBull;
  h ^= h >> 29;
  if (h % 13 == 0) return specials()[size_t((h / 13) % specials().size())];
  return double(int64_t(h % 4001) - 2000) / 16.0;
}
static std::string show(double x) { return fmt("%.17g[%016llx]", x, (unsigned long long)bits(x)); }
static uint64_t mix(long seed, long k) {
  uint64_t h = uint64_t(seed) * 0x9E3779B97F4A7C15ull + uint64_t(k + 1) * 0xBF58476D1CE4E5B9ull;
  h ^= h >> 31;
  h *= 0x94D049BB133111EBull;
  h ^= h >> 29;
  return h;
}
static uint32_t fbits(float x) {
  uint32_t b;
  memcpy(&b, &x, 4);
  return b;
}
// single precision content: values that are not representable more narrowly (and specials)
static float felem(long seed, long k) {
  static const std::vector<uint32_t> sp = {0x00000000u, 0x80000000u, 0x00000001u, 0x80000001u, 0x7f7fffffu, 0xff7fffffu, 0x7f800000u,
                                           0xff800000u, 0x7fc00000u, 0x7fc01234u, 0x3dcccccdu /*0.1f*/, 0x3e4ccccdu /*0.2f*/, 0x40490fdbu};
  uint64_t h = mix(seed, k);
  uint32_t b = (h % 5 == 0) ? sp[size_t((h / 5) % sp.size())] : fbits(float(int64_t(h % 4001) - 2000) / 16.0f);
  float x;
  memcpy(&x, &b, 4);
  return x;
}
static int ielem(long seed, long k) {
  uint64_t h = mix(seed, k);
  if (h % 5 == 0) return std::vector<int>{0, 1, -1, INT_MAX, INT_MIN, 65536, -65537}[size_t((h / 5) % 7)];
  return int(int64_t(h % 4001) - 2000);
}
// 64-bit content: every fifth value does not fit 32 bits (or a double mantissa)
static long lelem(long seed, long k) {
  uint64_t h = mix(seed, k);
  if (h % 5 == 0) return std::vector<long>{0, -1, 2147483648L, -2147483649L, LONG_MAX, LONG_MIN, 1099511627777L, 9007199254740993L}[size_t((h / 5) % 8)];
  return long(int64_t(h % 4001) - 2000);
}
static unsigned uelem(long seed, long k) {
  uint64_t h = mix(seed, k);
  if (h % 5 == 0) return std::vector<unsigned>{0u, 1u, 4294967295u, 2147483648u, 4000000000u}[size_t((h / 5) % 5)];
  return unsigned(h % 4001);
}
static bool is_matkind(const std::string &k) { return k == "m" || k == "mf" || k == "mi" || k == "ml"; }

// ------------------------------------------------------------------ values
static std::string str_of(const json &s) {
  std::string b = s.at("base").get<std::string>(), o;
  int rep = s.at("rep");
  for (int i = 0; i < rep; ++i) o += b;
  return o;
}
static std::vector<double> doubles_of(const json &v) {
  std::vector<double> o;
  if (v.contains("seed")) {
    long n = v.at("n"), seed = v.at("seed");
    for (long k = 0; k < n; ++k) o.push_back(elem(seed, k));
  } else
    for (auto &e : v.at("x")) o.push_back(dj(e));
  return o;
}
static std::string storage(const std::string &k) {
  if (k == "i" || k == "i32" || k == "u" || k == "d" || k == "b" || k == "s") return "attr";
  if (k == "vv3") return "group";
  return "dset";
}
// shape as stored (what an overwrite would have to replace)
static std::vector<long> shape_of(const json &v) {
  std::string k = v.at("k");
  if (storage(k) == "attr") return {};
  if (k == "vi" || k == "vi32") return {long(v.at("x").size()), 1};
  if (k == "vd") return {long(doubles_of(v).size()), 1};
  if (k == "vf" || k == "vu") return {v.at("n").get<long>(), 1};
  if (is_matkind(k)) return {v.at("r").get<long>(), v.at("c").get<long>()};
  if (k == "tabp") return {v.at("n").get<long>(), 1};
  if (k == "vv3" && v.contains("n")) return {v.at("n").get<long>()};
  if (k == "vs") return {long(v.at("x").size())};
  if (k == "m") return {v.at("r").get<long>(), v.at("c").get<long>()};
  if (k == "v") return {v.at("n").get<long>(), 1};
  if (k == "v3") return {3, 1};
  if (k == "vv3") return {long(v.at("x").size())};
  if (k == "tab") return {long(v.at("rows").size()), 1};
  return {};
}
static bool is_empty_shape(const json &v) {
  if (storage(v.at("k")) == "attr") return false;
  for (long d : shape_of(v))
    if (d == 0) return true;
  return false;
}
static std::string shape_str(const json &v) {
  std::string s = v.at("k").get<std::string>() + "(";
  bool first = true;
  for (long d : shape_of(v)) {
    s += (first ? "" : "x") + std::to_string(d);
    first = false;
  }
  return s + ")";
}

// ------------------------------------------------------------------ generators
static json gen_double() { return jd(rbool(35) ? pickv(specials()) : rfrac(-64, 64, 8)); }
static json gen_string(bool allow_big) {
  static const std::vector<std::string> pieces = {"a", "B",  "z9", " ",  "  ", "\xc3\xa9", "\xc3\x9f", "\xe6\x97\xa5\xe6\x9c\xac",
                                                  "\t", "\n", "\"", "'",  "<&>", "/",        "\\",       "%s",
                                                  "0"};
  int n = ri(0, 5);
  std::string b;
  for (int i = 0; i < n; ++i) b += pickv(pieces);
  int rep = 1;
  if (!b.empty() && rbool(15)) rep = ri(2, 5);
  if (!b.empty() && allow_big && rsize() > 40 && rbool(4)) rep = 10240 / int(b.size()) + 1;  // ~10 kB
  return json{{"base", b}, {"rep", rep}};
}
static long gen_len() {
  int c = ri(0, 9);
  if (c == 0) return 0;
  if (c < 5) return ri(1, 4);
  if (c < 9) return rcount(1, 40);
  return rsize() > 50 ? ri(200, 1200) : ri(5, 12);
}
static json gen_index(const std::string &k) {
  if (k == "i") {
    if (rbool(30)) return pick<long>({0, 1, -1, 2147483648L, -2147483649L, LONG_MAX, LONG_MIN, 4503599627370497L});
    return long(ri(-1000, 1000));
  }
  if (k == "i32") {
    if (rbool(30)) return long(pick<int>({0, 1, -1, INT_MAX, INT_MIN}));
    return long(ri(-1000, 1000));
  }
  if (rbool(30)) return long(pick<long>({0, 1, 4294967295L, 2147483648L}));
  return long(ri(0, 1000));
}
static json gen_row() {
  json r;
  r["id"] = long(ri(-3, 1000));
  r["el"] = pick<std::string>({"C", "H", "Xe", "Si", "N", "a b", "\xc3\xa9"});
  r["p"] = json::array({gen_double(), gen_double(), gen_double()});
  r["rank"] = long(ri(0, 2));
  json q = json::array();
  for (int i = 0; i < 9; ++i) q.push_back(gen_double());
  r["Q"] = q;
  return r;
}
// value of kind k; `like` (optional) fixes the shape
static json gen_value(const std::string &k, const json *like) {
  json v;
  v["k"] = k;
  std::vector<long> sh;
  if (like) sh = shape_of(*like);
  if (k == "i" || k == "i32" || k == "u") {
    v["x"] = gen_index(k);
  } else if (k == "d") {
    v["x"] = gen_double();
  } else if (k == "b") {
    v["x"] = rbool();
  } else if (k == "s") {
    json s = gen_string(true);
    v["base"] = s["base"];
    v["rep"] = s["rep"];
  } else if (k == "vi" || k == "vi32") {
    long n = like ? sh[0] : gen_len();
    json x = json::array();
    for (long i = 0; i < n; ++i) x.push_back(gen_index(k == "vi" ? "i" : "i32"));
    v["x"] = x;
  } else if (k == "vd") {
    long n = like ? sh[0] : gen_len();
    if (n <= 12) {
      json x = json::array();
      for (long i = 0; i < n; ++i) x.push_back(gen_double());
      v["x"] = x;
    } else {
      v["n"] = n;
      v["seed"] = long(ri(0, 99));
    }
  } else if (k == "vs") {
    long n = like ? sh[0] : std::min<long>(gen_len(), 8);
    json x = json::array();
    for (long i = 0; i < n; ++i) {
      json s = gen_string(false);
      // an empty element is its own class (HDF5 hands variable-length "" back as a null pointer)
      if (rbool(15)) s["base"] = "";
      if (s["base"].get<std::string>().empty() && known(K_EMPTYSTR)) s["base"] = "e";
      x.push_back(s);
    }
    v["x"] = x;
  } else if (k == "vf" || k == "vu") {
    v["n"] = like ? sh[0] : gen_len();
    v["seed"] = long(ri(0, 99));
  } else if (k == "tabp") {
    v["n"] = like ? sh[0] : long(ri(0, 7));
    v["seed"] = long(ri(0, 99));
  } else if (is_matkind(k)) {
    long r, c;
    if (like) {
      r = sh[0];
      c = sh[1];
    } else {
      int cl = ri(0, 9);
      long n = rcount(1, 9), m2 = rcount(1, 9);
      if (cl == 0) r = 0, c = 0;
      else if (cl == 1) r = n, c = 0;
      else if (cl == 2) r = 0, c = n;
      else if (cl == 3) r = 1, c = n;
      else if (cl == 4) r = n, c = 1;
      else if (cl == 9 && rsize() > 60) r = ri(10, 300), c = ri(10, 300);
      else r = n, c = m2;
    }
    v["r"] = r;
    v["c"] = c;
    v["seed"] = long(ri(0, 99));
  } else if (k == "v") {
    v["n"] = like ? sh[0] : (rbool(5) && rsize() > 50 ? 300L : gen_len() % 50);
    v["seed"] = long(ri(0, 99));
  } else if (k == "v3") {
    v["x"] = json::array({gen_double(), gen_double(), gen_double()});
  } else if (k == "vv3") {
    long n = like ? sh[0] : ri(0, 5);
    json x = json::array();
    for (long i = 0; i < n; ++i) x.push_back(json::array({gen_double(), gen_double(), gen_double()}));
    v["x"] = x;
  } else if (k == "tab") {
    long n = like ? sh[0] : ri(0, 5);
    json rows = json::array();
    for (long i = 0; i < n; ++i) rows.push_back(gen_row());
    v["rows"] = rows;
  }
  return v;
}
static const std::vector<std::string> &kinds() {
  static const std::vector<std::string> k = {"i",  "i32", "u", "d", "b", "s", "vi", "vi32", "vd", "vd", "vs",
                                             "m",  "m",   "m", "v", "v3", "vv3", "tab", "mf", "mi", "ml", "vf", "vu", "tabp"};
  return k;
}
static const std::vector<std::vector<std::string>> &paths() {
  static const std::vector<std::vector<std::string>> p = {{}, {}, {"g0"}, {"g0", "g1"}, {"g0", "g1", "G 2"}, {"g1"}};
  return p;
}
static std::string mkey(const std::vector<std::string> &path, const std::string &name) {
  std::string s;
  for (auto &g : path) s += "/" + g;
  return s + "\x1f" + name;
}

static json gen_seq() {
  static const std::vector<std::string> names = {"n0", "n1", "n2", "A b", "\xc3\xa9", "x.y"};
  int nops = rcount(2, 24);
  json ops = json::array();
  std::map<std::string, json> last;  // what this generator wrote where (to aim overwrites)
  std::map<std::string, std::pair<std::vector<std::string>, std::string>> where;
  for (int i = 0; i < nops; ++i) {
    int c = ri(0, 99);
    if (i == 0 && rbool(90)) c = 70;
    json op;
    if (c < 62) {
      std::vector<std::string> path = pickv(paths());
      std::string name = pickv(names);
      if (!last.empty() && rbool(50)) {  // aim at something written before: overwrites are the interesting steps
        auto pick_it = last.begin();
        std::advance(pick_it, ri(0, int(last.size()) - 1));
        path = where[pick_it->first].first;
        name = where[pick_it->first].second;
      }
      std::string key = mkey(path, name);
      where[key] = {path, name};
      json val;
      auto it = last.find(key);
      int how = ri(0, 9);
      // kinds stored as an (n x 1) dataset resp. an (r x c) dataset: the same extent can be written with another element type
      static const std::vector<std::string> colkinds = {"vd", "vf", "vi", "vi32", "vu", "v", "m", "mf", "mi", "ml", "tab", "tabp"};
      static const std::vector<std::string> matkinds = {"m", "mf", "mi", "ml"};
      std::vector<long> psh;
      if (it != last.end() && storage(it->second.at("k")) == "dset") psh = shape_of(it->second);
      if (psh.size() == 2 && rbool(25)) {
        std::string k2 = pickv(psh[1] == 1 ? colkinds : matkinds);  // same extent, (usually) other element type
        if (k2 == "tab" && psh[0] > 40) k2 = "tabp";
        json like{{"k", "m"}, {"r", psh[0]}, {"c", psh[1]}, {"seed", 0L}};
        val = gen_value(k2, &like);
      } else if (it != last.end() && how < 4)
        val = gen_value(it->second.at("k"), &it->second);  // same kind, same shape, new content
      else if (it != last.end() && how < 7)
        val = gen_value(it->second.at("k"), nullptr);  // same kind, (probably) other shape
      else
        val = gen_value(pickv(kinds()), nullptr);
      last[key] = val;
      op = json{{"op", "write"}, {"path", path}, {"name", name}, {"val", val}, {"direct", rbool(30)}, {"while_writable_open", rbool(30)}};
    } else if (c < 82) {
      std::string mode = (i == 0) ? pick<std::string>({"CREATE", "MODIFY"}) : pick<std::string>({"READ", "READ", "READ", "MODIFY", "MODIFY", "MODIFY", "CREATE"});
      if (mode == "CREATE") last.clear();
      op = json{{"op", "reopen"}, {"mode", mode}};
    } else {
      op = json{{"op", "read_missing"},
                {"path", pickv(paths())},
                {"name", rbool(50) ? std::string("zz") + std::to_string(ri(0, 2)) : pickv(names)},
                {"as", pickv(kinds())}};
    }
    ops.push_back(op);
  }
  return json{{"ops", ops}};
}
// one value of every kind / extreme shape through a close-and-reopen cycle (clean minimal replays)
static json gen_single() {
  json ops = json::array();
  ops.push_back(json{{"op", "reopen"}, {"mode", pick<std::string>({"CREATE", "MODIFY"})}});
  int n = ri(1, 3);
  for (int i = 0; i < n; ++i)
    ops.push_back(json{{"op", "write"},
                       {"path", pickv(paths())},
                       {"name", "n" + std::to_string(i)},
                       {"val", gen_value(pickv(kinds()), nullptr)},
                       {"direct", rbool(30)}});
  ops.push_back(json{{"op", "reopen"}, {"mode", "READ"}});
  return json{{"ops", ops}};
}

// corner histories that a random sequence reaches too rarely (always executed, every tier): every ordered pair of element
// types over one stored extent, lists of 3-vectors around the 10^4 entries where the per-entry names get a fifth digit,
// padded row structs
static void enum_corners(int level, const std::function<bool(const json &)> &emit) {
  auto wr = [](const std::string &name, const json &val) {
    return json{{"op", "write"}, {"path", json::array()}, {"name", name}, {"val", val}, {"direct", false}};
  };
  auto seq = [&](std::vector<json> writes) {
    json ops = json::array();
    ops.push_back(json{{"op", "reopen"}, {"mode", "CREATE"}});
    for (auto &w : writes) ops.push_back(w);
    ops.push_back(json{{"op", "reopen"}, {"mode", "READ"}});
    return json{{"ops", ops}};
  };
  static const std::vector<std::string> mk = {"m", "mf", "mi", "ml"};
  for (auto &a : mk)
    for (auto &b : mk) {
      if (a == b) continue;
      json va{{"k", a}, {"r", 3L}, {"c", 4L}, {"seed", 3L}}, vb{{"k", b}, {"r", 3L}, {"c", 4L}, {"seed", 5L}};
      if (!emit(seq({wr("n0", va), wr("n0", vb)}))) return;
    }
  static const std::vector<std::string> ck = {"vd", "vf", "vi", "vi32", "vu", "v", "ml", "mf", "tabp"};
  for (auto &a : ck)
    for (auto &b : ck) {
      if (a == b) continue;
      auto mkv = [](const std::string &k, long seed) {
        json v{{"k", k}, {"seed", seed}};
        if (k == "vi" || k == "vi32") {
          json x = json::array();
          for (long i = 0; i < 6; ++i) x.push_back(k == "vi" ? lelem(seed, i) : long(ielem(seed, i)));
          v["x"] = x;
          v.erase("seed");
        } else if (is_matkind(k))
          v["r"] = 6L, v["c"] = 1L;
        else
          v["n"] = 6L;
        return v;
      };
      if (!emit(seq({wr("n1", mkv(a, 7)), wr("n1", mkv(b, 9))}))) return;
    }
  for (long n : {9999L, 10000L, 10001L, 10050L}) {
    json big{{"k", "vv3"}, {"n", n}, {"seed", 11L}}, small{{"k", "vv3"}, {"n", 12L}, {"seed", 13L}};
    if (!emit(seq({wr("n2", big)}))) return;
    if (level >= 2 || n == 10050) {
      if (!emit(seq({wr("n2", big), wr("n2", small)}))) return;
      if (!emit(seq({wr("n2", small), wr("n2", big)}))) return;
    }
  }
  for (long n : {1L, 7L, 300L}) {
    json t{{"k", "tabp"}, {"n", n}, {"seed", 17L}};
    if (!emit(seq({wr("n3", t)}))) return;
  }
}

// ------------------------------------------------------------------ child <-> parent
struct Shared {
  volatile int have_result;
  char marker_key[160];
  char marker_txt[600];
  size_t len;
  char buf[1 << 20];
};
static Shared *shm() {
  static Shared *s = [] {
    void *p = mmap(nullptr, sizeof(Shared), PROT_READ | PROT_WRITE, MAP_SHARED | MAP_ANONYMOUS, -1, 0);
    if (p == MAP_FAILED) {
      perror("mmap");
      abort();
    }
    return static_cast<Shared *>(p);
  }();
  return s;
}
static void marker(const std::string &key, const std::string &txt) {
  Shared *s = shm();
  snprintf(s->marker_key, sizeof s->marker_key, "%s", key.c_str());
  snprintf(s->marker_txt, sizeof s->marker_txt, "%s", txt.c_str());
}

// ------------------------------------------------------------------ real code: write / read one value
template <class F>
static void with_writer(const xtp::CheckpointWriter &w, const std::vector<std::string> &path, size_t i, F &&f) {
  if (i == path.size())
    f(w);
  else
    with_writer(w.openChild(path[i]), path, i + 1, f);
}
template <class F>
static void with_reader(const xtp::CheckpointReader &r, const std::vector<std::string> &path, size_t i, F &&f) {
  if (i == path.size())
    f(r);
  else
    with_reader(r.openChild(path[i]), path, i + 1, f);
}
static std::string abs_path(const std::vector<std::string> &path) {
  std::string s;
  for (auto &g : path) s += "/" + g;
  return s.empty() ? "/" : s;
}

static void fill_rows(const json &v, std::vector<xtp::StaticSite::data> &rows, std::vector<std::string> &keep) {
  size_t n = v.at("rows").size();
  rows.assign(n, xtp::StaticSite::data{});
  keep.resize(n);
  for (size_t i = 0; i < n; ++i) {
    const json &r = v.at("rows")[i];
    keep[i] = r.at("el").get<std::string>();
    xtp::StaticSite::data &d = rows[i];
    d.id = r.at("id").get<long>();
    d.element = const_cast<char *>(keep[i].c_str());
    d.posX = dj(r.at("p")[0]);
    d.posY = dj(r.at("p")[1]);
    d.posZ = dj(r.at("p")[2]);
    d.rank = r.at("rank").get<long>();
    double *q = &d.Q00;
    for (int k = 0; k < 9; ++k) q[k] = dj(r.at("Q")[size_t(k)]);
  }
}

// a row type whose C struct has alignment padding (4-byte columns between 8-byte columns); every column type is one that
// CptTable::addCol accepts
struct PadRow {
  struct data {
    int a;
    double b;
    unsigned c;
    long d;
    float e;
  };
  static void SetupCptTable(xtp::CptTable &t) {
    t.addCol<int>("a", HOFFSET(data, a));
    t.addCol<double>("b", HOFFSET(data, b));
    t.addCol<unsigned>("c", HOFFSET(data, c));
    t.addCol<long>("d", HOFFSET(data, d));
    t.addCol<float>("e", HOFFSET(data, e));
  }
};
static_assert(sizeof(PadRow::data) > 28, "row struct is expected to contain padding");
static std::vector<PadRow::data> pad_rows(const json &v) {
  long n = v.at("n"), seed = v.at("seed");
  std::vector<PadRow::data> rows;
  for (long i = 0; i < n; ++i) {
    PadRow::data d;
    memset(&d, 0, sizeof d);
    d.a = ielem(seed, 5 * i);
    d.b = elem(seed, 5 * i + 1);
    d.c = uelem(seed, 5 * i + 2);
    d.d = lelem(seed, 5 * i + 3);
    d.e = felem(seed, 5 * i + 4);
    rows.push_back(d);
  }
  return rows;
}
static std::vector<Eigen::Vector3d> vv3_of(const json &v) {
  std::vector<Eigen::Vector3d> x;
  if (v.contains("n")) {
    long n = v.at("n"), seed = v.at("seed");
    for (long i = 0; i < n; ++i) x.push_back(Eigen::Vector3d(elem(seed, 3 * i), elem(seed, 3 * i + 1), elem(seed, 3 * i + 2)));
  } else
    for (auto &e : v.at("x")) x.push_back(Eigen::Vector3d(dj(e[0]), dj(e[1]), dj(e[2])));
  return x;
}

static void write_value(const xtp::CheckpointWriter &w, const std::string &name, const json &v) {
  std::string k = v.at("k");
  if (k == "i") {
    Index x = v.at("x").get<long>();
    w(x, name);
  } else if (k == "i32") {
    int x = int(v.at("x").get<long>());
    w(x, name);
  } else if (k == "u") {
    unsigned x = unsigned(v.at("x").get<long>());
    w(x, name);
  } else if (k == "d") {
    double x = dj(v.at("x"));
    w(x, name);
  } else if (k == "b") {
    bool x = v.at("x").get<bool>();
    w(x, name);
  } else if (k == "s") {
    std::string x = str_of(v);
    w(x, name);
  } else if (k == "vi") {
    std::vector<Index> x;
    for (auto &e : v.at("x")) x.push_back(e.get<long>());
    w(x, name);
  } else if (k == "vi32") {
    std::vector<int> x;
    for (auto &e : v.at("x")) x.push_back(int(e.get<long>()));
    w(x, name);
  } else if (k == "vd") {
    std::vector<double> x = doubles_of(v);
    w(x, name);
  } else if (k == "vs") {
    std::vector<std::string> x;
    for (auto &e : v.at("x")) x.push_back(str_of(e));
    w(x, name);
  } else if (k == "m") {
    long r = v.at("r"), c = v.at("c"), seed = v.at("seed");
    Eigen::MatrixXd M(r, c);
    for (long i = 0; i < r; ++i)
      for (long j = 0; j < c; ++j) M(i, j) = elem(seed, i * c + j);
    w(M, name);
  } else if (k == "mf") {
    long r = v.at("r"), c = v.at("c"), seed = v.at("seed");
    Eigen::MatrixXf M(r, c);
    for (long i = 0; i < r; ++i)
      for (long j = 0; j < c; ++j) M(i, j) = felem(seed, i * c + j);
    w(M, name);
  } else if (k == "mi") {
    long r = v.at("r"), c = v.at("c"), seed = v.at("seed");
    Eigen::MatrixXi M(r, c);
    for (long i = 0; i < r; ++i)
      for (long j = 0; j < c; ++j) M(i, j) = ielem(seed, i * c + j);
    w(M, name);
  } else if (k == "ml") {
    long r = v.at("r"), c = v.at("c"), seed = v.at("seed");
    Eigen::Matrix<long, Eigen::Dynamic, Eigen::Dynamic> M(r, c);
    for (long i = 0; i < r; ++i)
      for (long j = 0; j < c; ++j) M(i, j) = lelem(seed, i * c + j);
    w(M, name);
  } else if (k == "vf") {
    long n = v.at("n"), seed = v.at("seed");
    std::vector<float> x;
    for (long i = 0; i < n; ++i) x.push_back(felem(seed, i));
    w(x, name);
  } else if (k == "vu") {
    long n = v.at("n"), seed = v.at("seed");
    std::vector<unsigned> x;
    for (long i = 0; i < n; ++i) x.push_back(uelem(seed, i));
    w(x, name);
  } else if (k == "tabp") {
    std::vector<PadRow::data> rows = pad_rows(v);
    xtp::CheckpointWriter w2 = w;
    xtp::CptTable t = w2.openTable<PadRow>(name, rows.size());
    t.write(rows);
  } else if (k == "v") {
    long n = v.at("n"), seed = v.at("seed");
    Eigen::VectorXd V(n);
    for (long i = 0; i < n; ++i) V(i) = elem(seed, i);
    w(V, name);
  } else if (k == "v3") {
    Eigen::Vector3d V(dj(v.at("x")[0]), dj(v.at("x")[1]), dj(v.at("x")[2]));
    w(V, name);
  } else if (k == "vv3") {
    std::vector<Eigen::Vector3d> x = vv3_of(v);
    w(x, name);
  } else if (k == "tab") {
    std::vector<xtp::StaticSite::data> rows;
    std::vector<std::string> keep;
    fill_rows(v, rows, keep);
    xtp::CheckpointWriter w2 = w;  // openTable is non-const
    xtp::CptTable t = w2.openTable<xtp::StaticSite>(name, rows.size());
    t.write(rows);
  } else
    throw std::logic_error("harness: unknown kind " + k);
}

static std::string cmp_d(double got, double exp, const std::string &where) {
  if (bits(got) == bits(exp)) return "";
  return where + ": got " + show(got) + " expected " + show(exp);
}
template <class T>
static std::string cmp_int(T got, long exp, const std::string &where) {
  if (long(got) == exp && T(exp) == got) return "";
  return where + ": got " + std::to_string(got) + " expected " + std::to_string(exp);
}
static std::string quote(const std::string &s) {
  std::string o = "'";
  for (unsigned char ch : s.substr(0, 60)) o += (ch < 32) ? fmt("\\x%02x", ch) : std::string(1, char(ch));
  if (s.size() > 60) o += "...(" + std::to_string(s.size()) + " bytes)";
  return o + "'";
}

// reads `name` with the type of the model value and compares; "" = identical, otherwise the first difference.
static std::string read_compare(const xtp::CheckpointReader &r, const std::string &name, const json &v) {
  std::string k = v.at("k");
  if (k == "i") {
    Index x = 0x5a5a5a5a;
    r(x, name);
    return cmp_int(x, v.at("x").get<long>(), "Index");
  }
  if (k == "i32") {
    int x = 0x5a5a5a5a;
    r(x, name);
    return cmp_int(x, v.at("x").get<long>(), "int");
  }
  if (k == "u") {
    unsigned x = 0x5a5a5a5a;
    r(x, name);
    return cmp_int(x, v.at("x").get<long>(), "unsigned");
  }
  if (k == "d") {
    double x = 12345.678;
    r(x, name);
    return cmp_d(x, dj(v.at("x")), "double");
  }
  if (k == "b") {
    bool exp = v.at("x").get<bool>();
    bool x = !exp;
    r(x, name);
    return x == exp ? "" : fmt("bool: got %d expected %d", int(x), int(exp));
  }
  if (k == "s") {
    std::string x, exp = str_of(v);
    r(x, name);
    return x == exp ? "" : "string: got " + quote(x) + " expected " + quote(exp);
  }
  if (k == "vi" || k == "vi32") {
    std::vector<long> got;
    if (k == "vi") {
      std::vector<Index> x;
      r(x, name);
      got.assign(x.begin(), x.end());
    } else {
      std::vector<int> x;
      r(x, name);
      got.assign(x.begin(), x.end());
    }
    const json &e = v.at("x");
    if (got.size() != e.size()) return fmt("vector length: got %zu expected %zu", got.size(), e.size());
    for (size_t i = 0; i < got.size(); ++i)
      if (got[i] != e[i].get<long>()) return fmt("element %zu: got %ld expected %ld", i, got[i], e[i].get<long>());
    return "";
  }
  if (k == "vd") {
    std::vector<double> x, e = doubles_of(v);
    r(x, name);
    if (x.size() != e.size()) return fmt("vector<double> length: got %zu expected %zu", x.size(), e.size());
    for (size_t i = 0; i < x.size(); ++i) {
      std::string d = cmp_d(x[i], e[i], "element " + std::to_string(i));
      if (!d.empty()) return d;
    }
    return "";
  }
  if (k == "vs") {
    std::vector<std::string> x;
    r(x, name);
    const json &e = v.at("x");
    if (x.size() != e.size()) return fmt("vector<string> length: got %zu expected %zu", x.size(), e.size());
    for (size_t i = 0; i < x.size(); ++i)
      if (x[i] != str_of(e[i])) return "element " + std::to_string(i) + ": got " + quote(x[i]) + " expected " + quote(str_of(e[i]));
    return "";
  }
  if (k == "m" || k == "v") {
    long er = k == "m" ? v.at("r").get<long>() : v.at("n").get<long>();
    long ec = k == "m" ? v.at("c").get<long>() : 1;
    long seed = v.at("seed");
    Eigen::MatrixXd M;
    if (k == "m") {
      r(M, name);
    } else {
      Eigen::VectorXd V;
      r(V, name);
      M = V;
    }
    if (M.rows() != er || M.cols() != ec)
      return fmt("shape: got %ldx%ld expected %ldx%ld", long(M.rows()), long(M.cols()), er, ec);
    for (long i = 0; i < er; ++i)
      for (long j = 0; j < ec; ++j) {
        std::string d = cmp_d(M(i, j), elem(seed, i * ec + j), fmt("(%ld,%ld)", i, j));
        if (!d.empty()) return d;
      }
    return "";
  }
  if (k == "v3") {
    Eigen::Vector3d V(7, 7, 7);
    r(V, name);
    for (int i = 0; i < 3; ++i) {
      std::string d = cmp_d(V(i), dj(v.at("x")[size_t(i)]), "component " + std::to_string(i));
      if (!d.empty()) return d;
    }
    return "";
  }
  if (k == "vv3") {
    std::vector<Eigen::Vector3d> x, e = vv3_of(v);
    r(x, name);
    if (x.size() != e.size()) return fmt("vector<Vector3d> length: got %zu expected %zu", x.size(), e.size());
    for (size_t i = 0; i < x.size(); ++i)
      for (int c = 0; c < 3; ++c) {
        std::string d = cmp_d(x[i](c), e[i](c), fmt("[%zu](%d)", i, c));
        if (!d.empty()) return d;
      }
    return "";
  }
  if (k == "mf" || k == "mi" || k == "ml") {
    long er = v.at("r"), ec = v.at("c"), seed = v.at("seed");
    auto shape = [&](long gr, long gc) { return (gr != er || gc != ec) ? fmt("shape: got %ldx%ld expected %ldx%ld", gr, gc, er, ec) : std::string(); };
    if (k == "mf") {
      Eigen::MatrixXf M;
      r(M, name);
      std::string d = shape(M.rows(), M.cols());
      if (!d.empty()) return d;
      for (long i = 0; i < er; ++i)
        for (long j = 0; j < ec; ++j)
          if (fbits(M(i, j)) != fbits(felem(seed, i * ec + j)))
            return fmt("float (%ld,%ld): got %.9g[%08x] expected %.9g[%08x]", i, j, double(M(i, j)), fbits(M(i, j)), double(felem(seed, i * ec + j)), fbits(felem(seed, i * ec + j)));
    } else if (k == "mi") {
      Eigen::MatrixXi M;
      r(M, name);
      std::string d = shape(M.rows(), M.cols());
      if (!d.empty()) return d;
      for (long i = 0; i < er; ++i)
        for (long j = 0; j < ec; ++j)
          if (M(i, j) != ielem(seed, i * ec + j)) return fmt("int (%ld,%ld): got %d expected %d", i, j, M(i, j), ielem(seed, i * ec + j));
    } else {
      Eigen::Matrix<long, Eigen::Dynamic, Eigen::Dynamic> M;
      r(M, name);
      std::string d = shape(M.rows(), M.cols());
      if (!d.empty()) return d;
      for (long i = 0; i < er; ++i)
        for (long j = 0; j < ec; ++j)
          if (M(i, j) != lelem(seed, i * ec + j)) return fmt("long (%ld,%ld): got %ld expected %ld", i, j, M(i, j), lelem(seed, i * ec + j));
    }
    return "";
  }
  if (k == "vf") {
    long n = v.at("n"), seed = v.at("seed");
    std::vector<float> x;
    r(x, name);
    if (long(x.size()) != n) return fmt("vector<float> length: got %zu expected %ld", x.size(), n);
    for (long i = 0; i < n; ++i)
      if (fbits(x[size_t(i)]) != fbits(felem(seed, i)))
        return fmt("float element %ld: got %.9g[%08x] expected %.9g[%08x]", i, double(x[size_t(i)]), fbits(x[size_t(i)]), double(felem(seed, i)), fbits(felem(seed, i)));
    return "";
  }
  if (k == "vu") {
    long n = v.at("n"), seed = v.at("seed");
    std::vector<unsigned> x;
    r(x, name);
    if (long(x.size()) != n) return fmt("vector<unsigned> length: got %zu expected %ld", x.size(), n);
    for (long i = 0; i < n; ++i)
      if (x[size_t(i)] != uelem(seed, i)) return fmt("unsigned element %ld: got %u expected %u", i, x[size_t(i)], uelem(seed, i));
    return "";
  }
  if (k == "tabp") {
    xtp::CheckpointReader r2 = r;
    xtp::CptTable t = r2.openTable<PadRow>(name);
    std::vector<PadRow::data> exp = pad_rows(v);
    if (t.numRows() != exp.size()) return fmt("table rows: got %zu expected %zu", t.numRows(), exp.size());
    if (exp.empty()) return "";
    std::vector<PadRow::data> got(exp.size());
    memset(got.data(), 0x5a, got.size() * sizeof(PadRow::data));
    t.read(got);
    for (size_t i = 0; i < exp.size(); ++i) {
      const PadRow::data &g = got[i], &e = exp[i];
      if (g.a != e.a || bits(g.b) != bits(e.b) || g.c != e.c || g.d != e.d || fbits(g.e) != fbits(e.e))
        return fmt("padded row %zu: got (%d, %.17g, %u, %ld, %.9g) expected (%d, %.17g, %u, %ld, %.9g)", i, g.a, g.b, g.c, g.d, double(g.e), e.a, e.b,
                   e.c, e.d, double(e.e));
    }
    return "";
  }
  if (k == "tab") {
    xtp::CheckpointReader r2 = r;
    xtp::CptTable t = r2.openTable<xtp::StaticSite>(name);
    std::vector<xtp::StaticSite::data> exp;
    std::vector<std::string> keep;
    fill_rows(v, exp, keep);
    if (t.numRows() != exp.size()) return fmt("table rows: got %zu expected %zu", t.numRows(), exp.size());
    if (exp.empty()) return "";  // callers do not read empty tables (AtomContainer::ReadFromCpt returns on size 0)
    std::vector<xtp::StaticSite::data> got(exp.size(), xtp::StaticSite::data{});
    t.read(got);
    std::string diff;
    for (size_t i = 0; i < exp.size(); ++i) {
      std::string el = got[i].element ? std::string(got[i].element) : std::string();
      free(got[i].element);
      if (!diff.empty()) continue;
      if (got[i].id != exp[i].id) diff = fmt("row %zu id: got %ld expected %ld", i, long(got[i].id), long(exp[i].id));
      else if (el != keep[i]) diff = fmt("row %zu element: got ", i) + quote(el) + " expected " + quote(keep[i]);
      else if (got[i].rank != exp[i].rank) diff = fmt("row %zu rank: got %ld expected %ld", i, long(got[i].rank), long(exp[i].rank));
      else {
        const double *a = &got[i].posX, *b = &exp[i].posX;
        for (int c = 0; c < 3 && diff.empty(); ++c) diff = cmp_d(a[c], b[c], fmt("row %zu pos[%d]", i, c));
        a = &got[i].Q00;
        b = &exp[i].Q00;
        for (int c = 0; c < 9 && diff.empty(); ++c) diff = cmp_d(a[c], b[c], fmt("row %zu Q[%d]", i, c));
      }
    }
    return diff;
  }
  throw std::logic_error("harness: unknown kind " + k);
}

// ------------------------------------------------------------------ the state machine (runs in the child)
struct Entry {
  std::vector<std::string> path;
  std::string name;
  json val;
  std::string attr_key;  // key a failure on this entry belongs to
  std::vector<json> history;
};
struct Machine {
  std::string file;
  std::unique_ptr<xtp::CheckpointFile> h;
  std::string mode;
  std::map<std::string, Entry> model;
  std::set<std::string> groups;  // absolute group paths that exist ("" = root)
  bool type_dirty = false;  // an overwrite with another type happened since CREATE: stale objects are expected
  Result r;
  bool wrote = false, nt_reopen = false, nt_shape = false, nt_empty = false;

  static std::string gpath(const std::vector<std::string> &p, size_t n) {
    std::string s;
    for (size_t i = 0; i < n; ++i) s += "/" + p[i];
    return s;
  }

  // fresh READ handle; everything in the model must come back identical, and nothing else may be there
  void verify(const std::string &when) {
    if (!r.ok || !fs::exists(file)) return;
    marker("Checkpoint/verify-open", when + ": opening a fresh READ handle");
    xtp::CheckpointFile f(file, xtp::CheckpointAccessLevel::READ);
    int parity = 0;
    for (auto &kv : model) {
      const Entry &e = kv.second;
      std::string what = when + ": reading " + abs_path(e.path) + ":" + quote(e.name) + " = " + shape_str(e.val);
      marker(e.attr_key, what);
      std::string diff;
      try {
        auto body = [&](const xtp::CheckpointReader &rd) { diff = read_compare(rd, e.name, e.val); };
        if ((parity++ & 1) && !e.path.empty())
          body(f.getReader(abs_path(e.path)));
        else
          with_reader(f.getReader(), e.path, 0, body);
      } catch (const std::exception &ex) {
        diff = std::string("read threw ") + ex.what();
      } catch (const H5::Exception &ex) {
        diff = "read leaked a raw H5::Exception: " + ex.getDetailMsg();
      }
      if (!diff.empty()) {
        r.fail(e.attr_key, what + " -> " + diff);
        return;
      }
    }
    // nothing invented: attributes / objects of every group are exactly the model's
    if (type_dirty) return;
    for (auto &gp : groups) {
      marker("Checkpoint/listing", when + ": listing group '" + gp + "'");
      std::multiset<std::string> eattr, eobj, gattr, gobj;
      for (auto &kv : model) {
        if (gpath(kv.second.path, kv.second.path.size()) != gp) continue;
        (storage(kv.second.val.at("k")) == "attr" ? eattr : eobj).insert(kv.second.name);
      }
      for (auto &g2 : groups) {
        if (g2.size() <= gp.size() || g2.compare(0, gp.size(), gp) != 0 || g2[gp.size()] != '/') continue;
        std::string rest = g2.substr(gp.size() + 1);
        if (rest.find('/') == std::string::npos) eobj.insert(rest);
      }
      xtp::CheckpointReader rd = f.getReader(gp.empty() ? "/" : gp);
      H5::Group g = rd.getLoc();
      for (int i = 0; i < g.getNumAttrs(); ++i) gattr.insert(g.openAttribute(unsigned(i)).getName());
      for (hsize_t i = 0; i < g.getNumObjs(); ++i) gobj.insert(g.getObjnameByIdx(i));
      if (eattr != gattr || eobj != gobj) {
        auto join = [](const std::multiset<std::string> &s) {
          std::string o;
          for (auto &x : s) o += quote(x) + " ";
          return o;
        };
        r.fail("Checkpoint/content-listing", when + ": group '" + gp + "' holds attributes {" + join(gattr) + "} objects {" + join(gobj) +
                                                 "}, the model says attributes {" + join(eattr) + "} objects {" + join(eobj) + "}");
        return;
      }
    }
  }

  void reopen(const std::string &m, int step) {
    std::string when = fmt("step %d reopen(%s)", step, m.c_str());
    h.reset();
    if (wrote) nt_reopen = true;
    verify(when + " after close");
    if (!r.ok) return;
    r.cls("op:reopen-" + m);
    marker("Checkpoint/open", when);
    bool existed = fs::exists(file);
    try {
      xtp::CheckpointAccessLevel lvl = m == "READ" ? xtp::CheckpointAccessLevel::READ
                                       : m == "MODIFY" ? xtp::CheckpointAccessLevel::MODIFY
                                                       : xtp::CheckpointAccessLevel::CREATE;
      h = std::make_unique<xtp::CheckpointFile>(file, lvl);
      if (m == "READ" && !existed) {
        r.fail("Checkpoint/open-missing-file", when + ": opening a non-existing file for READ did not fail");
        return;
      }
    } catch (const std::runtime_error &ex) {
      if (m == "READ" && !existed) {
        r.cls("open-READ-missing-file-rejected");
        h.reset();
        mode = "";
        return;
      }
      r.fail("Checkpoint/open", when + " threw " + ex.what());
      return;
    }
    mode = m;
    if (m == "CREATE") {
      if (!model.empty()) r.cls("CREATE-truncates-nonempty-file");
      model.clear();
      groups.clear();
      type_dirty = false;
    }
    groups.insert("");
    verify(when + " after open");
  }

  void write(const json &op, int step) {
    std::vector<std::string> path = op.at("path").get<std::vector<std::string>>();
    std::string name = op.at("name");
    const json &val = op.at("val");
    std::string when = fmt("step %d write ", step) + abs_path(path) + ":" + quote(name) + " = " + shape_str(val);
    if (!h) {
      r.cls("op:write-without-handle(skipped)");
      return;
    }
    if (mode == "READ") {
      r.cls("op:write-on-READ");
      marker("Checkpoint/readonly", when + " on a READ handle");
      // (0) interleaved handles: a writable handle on the same file is open in this process when the read-only handle
      // is created (HDF5 then shares one file object); the read-only handle must still refuse to hand out a writer
      if (op.value("while_writable_open", false)) {
        r.cls("op:write-on-READ-while-MODIFY-handle-open");
        h.reset();
        bool gave_writer = false;
        {
          xtp::CheckpointFile wr(file, xtp::CheckpointAccessLevel::MODIFY);
          xtp::CheckpointFile ro(file, xtp::CheckpointAccessLevel::READ);
          try {
            xtp::CheckpointWriter w = ro.getWriter(abs_path(path));
            gave_writer = true;
          } catch (const std::runtime_error &) {
          }
        }
        if (gave_writer) {
          r.fail("Checkpoint/readonly-getWriter", when + ": getWriter() on a READ handle did not throw while a MODIFY handle on the same file was open");
          return;
        }
        verify(when + " (READ handle next to an open MODIFY handle, file must be unchanged)");
        if (!r.ok) return;
        h = std::make_unique<xtp::CheckpointFile>(file, xtp::CheckpointAccessLevel::READ);
      }
      // (1) the documented way
      try {
        xtp::CheckpointWriter w = h->getWriter(abs_path(path));
        r.fail("Checkpoint/readonly-getWriter", when + ": getWriter() on a READ handle did not throw");
        return;
      } catch (const std::runtime_error &) {
      }
      // (2) through the location the reader exposes.  HDF5 itself must refuse; an attempt that is a no-op (e.g. a 0-row
      // matrix onto an existing dataset) need not throw.  What counts is the FILE: HDF5 updates its in-memory attribute
      // cache before it notices the missing write intent, so handles in this process may see the attempted value while
      // the file is open; therefore close the READ handle, compare the file on disk, open it again.
      bool threw = false;
      try {
        xtp::CheckpointReader rd = h->getReader();
        xtp::CheckpointWriter w(rd.getLoc());
        with_writer(w, path, 0, [&](const xtp::CheckpointWriter &ww) { write_value(ww, name, val); });
      } catch (const std::runtime_error &) {
        threw = true;
      } catch (const H5::Exception &) {
        threw = true;
        r.cls("readonly-write-raw-H5-exception");
      }
      r.cls(threw ? "readonly-write-via-reader-location-threw" : "readonly-write-via-reader-location-silent");
      h.reset();
      verify(when + " (attempted through a READ handle, file must be unchanged)");
      if (!r.ok) {
        if (r.key != "Checkpoint/content-listing") r.key = "Checkpoint/readonly-modified";
        return;
      }
      h = std::make_unique<xtp::CheckpointFile>(file, xtp::CheckpointAccessLevel::READ);
      return;
    }
    // classify against everything written under this name since the last CREATE
    std::string key = mkey(path, name);
    auto it = model.find(key);
    bool type_change = false, shape_change = false;
    if (it != model.end())
      for (auto &hv : it->second.history) {
        if (hv.at("k") != val.at("k")) type_change = true;
        if (storage(hv.at("k")) == storage(val.at("k")) && shape_of(hv) != shape_of(val)) shape_change = true;
      }
    bool emptymat = (is_matkind(val.at("k")) && val.at("c").get<long>() == 0);
    bool emptystr = false;
    if (val.at("k") == "vs")
      for (auto &e : val.at("x"))
        if (str_of(e).empty()) emptystr = true;
    std::string akey = type_change    ? K_TYPE
                       : shape_change ? K_SHAPE
                       : emptymat     ? K_EMPTYMAT
                       : emptystr     ? K_EMPTYSTR
                                      : "Checkpoint/roundtrip-" + val.at("k").get<std::string>();
    // an operation that belongs to a class with a known defect is not executed (and does not enter the model)
    for (auto &kc : std::vector<std::pair<bool, const char *>>{{type_change, K_TYPE}, {shape_change, K_SHAPE}, {emptymat, K_EMPTYMAT}, {emptystr, K_EMPTYSTR}})
      if (kc.first && known(kc.second)) {
        r.cls(std::string("excluded-known:") + kc.second);
        return;
      }
    r.cls(it == model.end() ? "op:write-fresh" : type_change ? "op:overwrite-other-type" : shape_change ? "op:overwrite-other-shape" : "op:overwrite-same-shape");
    r.cls("kind:" + val.at("k").get<std::string>());
    if (is_empty_shape(val)) {
      r.cls("empty:" + shape_str(val));
      nt_empty = true;
    }
    if (shape_change) nt_shape = true;
    if (path.size() >= 2) r.cls("nested-depth>=2");
    if (is_matkind(val.at("k")) && val.at("r").get<long>() * val.at("c").get<long>() > 2500) r.cls("big-matrix");
    if (it != model.end() && type_change && storage(it->second.val.at("k")) == "dset" && storage(val.at("k")) == "dset" &&
        shape_of(it->second.val).size() == 2 && shape_of(it->second.val) == shape_of(val))
      r.cls("overwrite-same-extent-other-element-type");
    if (val.at("k") == "vv3" && shape_of(val)[0] > 10000) r.cls("vector<Vector3d>-longer-than-10000");
    if (emptystr) r.cls("vector<string>-with-empty-element");
    if (val.at("k") == "s" && str_of(val).size() > 10000) r.cls("string>10kB");
    bool direct = op.at("direct").get<bool>() && !path.empty() && groups.count(gpath(path, path.size() - 1));
    if (direct) r.cls("getWriter(absolute-path)");
    marker(akey, when);
    try {
      if (direct) {
        xtp::CheckpointWriter w = h->getWriter(abs_path(path));
        write_value(w, name, val);
      } else {
        with_writer(h->getWriter(), path, 0, [&](const xtp::CheckpointWriter &w) { write_value(w, name, val); });
      }
    } catch (const std::exception &ex) {
      r.fail(akey, when + " threw " + ex.what());
      return;
    } catch (const H5::Exception &ex) {
      r.fail(akey, when + " leaked a raw H5::Exception: " + ex.getDetailMsg());
      return;
    }
    wrote = true;
    if (type_change) type_dirty = true;
    Entry &e = model[key];
    e.path = path;
    e.name = name;
    e.val = val;
    e.attr_key = akey;
    e.history.push_back(val);
    for (size_t n = 0; n <= path.size(); ++n) groups.insert(gpath(path, n));
    verify(when);
  }

  void read_missing(const json &op, int step) {
    std::vector<std::string> path = op.at("path").get<std::vector<std::string>>();
    std::string name = op.at("name"), as = op.at("as");
    if (!fs::exists(file)) return;
    if (model.count(mkey(path, name))) {
      r.cls("op:read-missing(name exists, skipped)");
      return;
    }
    bool group_missing = !groups.count(gpath(path, path.size()));
    r.cls(group_missing ? "op:read-missing-group" : "op:read-missing-name");
    std::string when = fmt("step %d read of never-written ", step) + abs_path(path) + ":" + quote(name) + " as " + as;
    marker("Checkpoint/missing-name", when);
    json probe = gen_probe(as);
    bool threw = false;
    std::string diff;
    try {
      xtp::CheckpointFile f(file, xtp::CheckpointAccessLevel::READ);
      auto body = [&](const xtp::CheckpointReader &rd) { diff = read_compare(rd, name, probe); };
      if (step & 1)
        with_reader(f.getReader(), path, 0, body);
      else
        body(f.getReader(abs_path(path)));
    } catch (const std::runtime_error &) {
      threw = true;
    } catch (const H5::Exception &) {
      threw = true;
      r.cls("missing-name-raw-H5-exception");
    }
    if (!threw) r.fail("Checkpoint/missing-name-no-error", when + " did not report an error (" + diff + ")");
  }
  // smallest value of a kind, only used to select the reader overload
  static json gen_probe(const std::string &k) {
    json v{{"k", k}};
    if (k == "i" || k == "i32" || k == "u") v["x"] = 0L;
    else if (k == "d") v["x"] = 0.0;
    else if (k == "b") v["x"] = false;
    else if (k == "s") v["base"] = "", v["rep"] = 0;
    else if (k == "vi" || k == "vi32" || k == "vd" || k == "vs" || k == "vv3") v["x"] = json::array();
    else if (is_matkind(k)) v["r"] = 0L, v["c"] = 0L, v["seed"] = 0L;
    else if (k == "vf" || k == "vu" || k == "tabp") v["n"] = 0L, v["seed"] = 0L;
    else if (k == "v") v["n"] = 0L, v["seed"] = 0L;
    else if (k == "v3") v["x"] = json::array({0.0, 0.0, 0.0});
    else if (k == "tab") v["rows"] = json::array();
    return v;
  }

  void run(const json &c) {
    H5::Exception::dontPrint();
    H5Eset_auto2(H5E_DEFAULT, nullptr, nullptr);
    int step = 0;
    for (auto &op : c.at("ops")) {
      ++step;
      std::string o = op.at("op");
      if (o == "reopen") reopen(op.at("mode"), step);
      else if (o == "write") write(op, step);
      else if (o == "read_missing") read_missing(op, step);
      if (!r.ok) break;
    }
    if (r.ok) {
      h.reset();
      verify("final, all handles closed");
    }
    h.reset();
    r.nontrivial = nt_shape || nt_empty || nt_reopen;
    if (nt_reopen) r.cls("nt:reopen-between-write-and-read");
    if (nt_shape) r.cls("nt:overwrite-other-shape");
    if (nt_empty) r.cls("nt:empty-shape");
  }
};

static json result_to_json(const Result &r) {
  return json{{"ok", r.ok}, {"discard", r.discard}, {"nt", r.nontrivial}, {"key", r.key}, {"msg", r.msg}, {"classes", r.classes}};
}

// one execution of the case in a forked child; returns false when the child was killed by its own watchdog (SIGALRM)
static bool run_child_once(const json &c, unsigned watchdog_s, Result &out) {
  fs::create_directories("/verif/build/work");
  char tmpl[] = "/verif/build/work/c17-XXXXXX";
  if (!mkdtemp(tmpl)) {
    out.fail("harness/mkdtemp", strerror(errno));
    return true;
  }
  std::string dir = tmpl;
  Shared *s = shm();
  s->have_result = 0;
  s->len = 0;
  s->marker_key[0] = s->marker_txt[0] = 0;
  fflush(nullptr);
  pid_t pid = fork();
  if (pid < 0) {
    out.fail("harness/fork", strerror(errno));
    fs::remove_all(dir);
    return true;
  }
  if (pid == 0) {
    // child: no crash files / stats from here, die quietly
    st().in_case = false;
    st().crash.clear();
    st().out.clear();
    signal(SIGABRT, SIG_DFL);
    alarm(watchdog_s);          // wall clock: only for blocked system calls, retried by the parent
    arm_cpu_watchdog(true);     // the framework's load-independent budget (interval timers are not inherited over fork)
    Machine m;
    m.file = dir + "/cpt.hdf5";
    try {
      m.run(c);
    } catch (const std::exception &e) {
      m.r.fail("harness/unexpected-exception", std::string("unexpected exception: ") + e.what() + " while " + s->marker_txt);
    } catch (const H5::Exception &e) {
      m.r.fail("harness/unexpected-h5-exception", "unexpected H5::Exception: " + e.getDetailMsg() + " while " + s->marker_txt);
    }
    std::string js = result_to_json(m.r).dump(-1, ' ', false, json::error_handler_t::replace);
    if (js.size() < sizeof s->buf) {
      memcpy(s->buf, js.data(), js.size());
      s->len = js.size();
      s->have_result = 1;
    }
    _exit(0);
  }
  int status = 0;
  while (waitpid(pid, &status, 0) < 0 && errno == EINTR) {
  }
  std::error_code ec;
  fs::remove_all(dir, ec);
  if (s->have_result) {
    json j = json::parse(std::string(s->buf, s->len));
    out.ok = j.at("ok");
    out.discard = j.at("discard");
    out.nontrivial = j.at("nt");
    out.key = j.at("key");
    out.msg = j.at("msg");
    out.classes = j.at("classes").get<std::vector<std::string>>();
    return true;
  }
  if (WIFSIGNALED(status) && WTERMSIG(status) == SIGALRM) return false;
  if (WIFEXITED(status) && WEXITSTATUS(status) == 87) {
    out.fail("no-termination-within-cpu-budget", fmt("case used more than %ld s of CPU time during: ", case_cpu_budget_s()) + s->marker_txt);
    return true;
  }
  std::string how = WIFSIGNALED(status) ? fmt("killed by signal %d", WTERMSIG(status)) : fmt("exit code %d", WEXITSTATUS(status));
  std::string key = s->marker_key[0] ? s->marker_key : "Checkpoint/crash";
  out.fail(key, "process died (" + how + "; sanitizer report / assertion in the log) during: " + s->marker_txt);
  return true;
}

// A case needs ~25 ms.  On a starved machine (memory pressure stalls of minutes were observed while 100+ sanitizer processes
// of other checks were running) a child can exceed any reasonable watchdog without hanging: a watchdog kill is therefore
// repeated twice with a 10-minute watchdog; only a case that never finishes is reported (a real hang is deterministic).
static Result run_case(const json &c) {
  for (unsigned attempt = 0; attempt < 3; ++attempt) {
    Result out;
    if (run_child_once(c, attempt == 0 ? 120 : 600, out)) {
      if (attempt > 0) out.cls("watchdog-retry-succeeded(machine starved)");
      return out;
    }
  }
  Result out;
  out.fail("Checkpoint/timeout", std::string("case did not finish within 120 s + 2 x 600 s, last activity: ") + shm()->marker_txt);
  return out;
}

// smaller quarantine: the parent only shuffles JSON, and fork() cost grows with its resident set
extern "C" const char *__asan_default_options() { return "quarantine_size_mb=16"; }

int main(int argc, char **argv) {
  std::vector<Sub> subs;
  subs.push_back(Sub{"statemachine", gen_seq, run_case, 0.8, 100, nullptr});
  subs.push_back(Sub{"single", gen_single, run_case, 0.2, 100, nullptr});
  subs.push_back(Sub{"corners", nullptr, run_case, 0.001, 100, enum_corners});
  return harness_main(argc, argv, "C17", subs);
}
