// Common machinery of the /verif rapidcheck harnesses.
//
// A harness is a list of vv::Sub (sub-property): gen() draws a case as JSON from rapidcheck
// generators (all randomness lives there, so rapidcheck can shrink and replay), run() executes the
// case against the real code and an independent oracle.  The JSON of a failing (shrunk) case is the
// replay file; `--replay f` runs it without rapidcheck.
//
// Counters (evaluations, distinct non-trivial hashes, class histogram, samples) are kept here so
// that they survive sanitizer aborts: a death callback / SIGABRT handler dumps the case being
// executed (crash file) and the counters.
#pragma once
#include <nlohmann/json.hpp>
#include <rapidcheck.h>

#include <cmath>
#include <csignal>
#include <cstdarg>
#include <cstdint>
#include <cstdio>
#include <cstdlib>
#include <cstring>
#include <fstream>
#include <functional>
#include <iostream>
#include <map>
#include <set>
#include <sstream>
#include <string>
#include <sys/time.h>
#include <unistd.h>
#include <vector>

extern "C" void __sanitizer_set_death_callback(void (*)(void)) __attribute__((weak));

namespace vv {
using json = nlohmann::json;

struct Result {
  bool ok = true;
  bool discard = false;     // case outside the property's domain (documented rejection etc.)
  bool nontrivial = false;  // by the sub-property's stated rule
  std::string key;          // stable name of the failing site / class
  std::string msg;
  std::vector<std::string> classes;
  void fail(const std::string &k, const std::string &m) {
    if (ok) {
      ok = false;
      key = k;
      msg = m;
    }
  }
  void cls(const std::string &c) { classes.push_back(c); }
};

struct Sub {
  std::string name;
  std::function<json()> gen;                 // only called inside a rapidcheck property
  std::function<Result(const json &)> run;   // pure function of the case
  double share = 1.0;                        // share of the case budget
  int max_size = 100;
  // optional exhaustive enumeration of a finite scope (level = scope size selected by the tier)
  std::function<void(int level, const std::function<bool(const json &)> &emit)> enumerate;
};

// ---------------------------------------------------------------- generators
inline int ri(int lo, int hi) {  // inclusive, shrinks towards lo
  if (hi <= lo) return lo;
  return *rc::gen::resize(100, rc::gen::inRange<int>(lo, hi + 1));
}
inline long rl(long lo, long hi) {
  if (hi <= lo) return lo;
  return *rc::gen::resize(100, rc::gen::inRange<long>(lo, hi + 1));
}
inline bool rbool(int percent = 50) { return ri(0, 99) < percent; }
// real on a 2^-20 lattice of [lo,hi] (built from an integer so that shrinking gives round numbers)
inline double rreal(double lo, double hi) {
  return lo + (hi - lo) * (double(ri(0, 1 << 20)) / double(1 << 20));
}
// small "nice" real: k/den
inline double rfrac(int lo_num, int hi_num, int den) { return double(ri(lo_num, hi_num)) / double(den); }
// m * 10^e with m in [1,9.99], e in [elo,ehi]
inline double rlog(int elo, int ehi) {
  double m = double(ri(100, 999)) / 100.0;
  int e = ri(elo, ehi);
  return m * std::pow(10.0, e);
}
template <class T>
inline T pick(std::initializer_list<T> l) {
  std::vector<T> v(l);
  return v[size_t(ri(0, int(v.size()) - 1))];
}
template <class T>
inline const T &pickv(const std::vector<T> &v) {
  return v[size_t(ri(0, int(v.size()) - 1))];
}
inline int rsize() { return *rc::gen::withSize([](int s) { return rc::gen::just(s); }); }
// count in [lo,hi] growing with the rapidcheck size (0..100)
inline int rcount(int lo, int hi) {
  int s = rsize();
  int top = lo + int((long(hi - lo) * std::min(s, 100) + 99) / 100);
  return ri(lo, std::max(lo, top));
}
inline std::vector<int> rperm(int n) {
  std::vector<int> p(static_cast<size_t>(n));
  for (int i = 0; i < n; ++i) p[size_t(i)] = i;
  for (int i = n - 1; i > 0; --i) std::swap(p[size_t(i)], p[size_t(ri(0, i))]);
  return p;
}

// ---------------------------------------------------------------- known findings (excluded by construction)
inline const std::set<std::string> &known_keys() {
  static std::set<std::string> k = [] {
    std::set<std::string> s;
    const char *e = getenv("VV_KNOWN");
    if (e) {
      std::stringstream ss(e);
      std::string t;
      while (std::getline(ss, t, ',')) {
        if (!t.empty()) s.insert(t);
      }
    }
    return s;
  }();
  return k;
}
inline bool known(const std::string &key) { return known_keys().count(key) > 0; }

// ---------------------------------------------------------------- numerics
inline bool close(double a, double b, double rel, double abs_ = 0) {
  if (a == b) return true;
  if (!(std::isfinite(a) && std::isfinite(b))) return false;
  return std::fabs(a - b) <= abs_ + rel * std::max(std::fabs(a), std::fabs(b));
}
inline std::string fmt(const char *f, ...) {
  char buf[2048];
  va_list ap;
  va_start(ap, f);
  vsnprintf(buf, sizeof buf, f, ap);
  va_end(ap);
  return buf;
}

// ---------------------------------------------------------------- counters
inline uint64_t fnv(const std::string &s) {
  uint64_t h = 1469598103934665603ull;
  for (unsigned char c : s) {
    h ^= c;
    h *= 1099511628211ull;
  }
  return h;
}

struct SubStats {
  long evaluations = 0, discards = 0, excluded_known = 0;
  std::set<uint64_t> nontrivial;
  std::map<std::string, long> classes;
  std::vector<json> samples;
  json last_nt;
};

struct State {
  std::string property;
  std::string out, crash;
  std::map<std::string, SubStats> stats;
  std::string current_sub;
  std::string current_case;  // serialised case under execution
  json failures = json::array();
  bool in_case = false;
};
inline State &st() {
  static State s;
  return s;
}

inline void flush_stats() {
  State &S = st();
  if (S.out.empty()) return;
  json j;
  j["property"] = S.property;
  j["subs"] = json::object();
  for (auto &kv : S.stats) {
    json s;
    s["evaluations"] = kv.second.evaluations;
    s["discards"] = kv.second.discards;
    s["excluded_known"] = kv.second.excluded_known;
    s["distinct_nontrivial"] = kv.second.nontrivial.size();
    std::vector<uint64_t> hs(kv.second.nontrivial.begin(), kv.second.nontrivial.end());
    if (hs.size() > 200000) hs.resize(200000);
    s["nt_hashes"] = hs;
    s["classes"] = kv.second.classes;
    json smp = kv.second.samples;
    if (!kv.second.last_nt.is_null()) smp.push_back(kv.second.last_nt);
    s["samples"] = smp;
    j["subs"][kv.first] = s;
  }
  j["failures"] = S.failures;
  std::string tmp = S.out + ".tmp";
  {
    std::ofstream f(tmp);
    f << j.dump();
  }
  rename(tmp.c_str(), S.out.c_str());
}

inline void dump_crash() {
  State &S = st();
  if (!S.in_case || S.crash.empty()) return;
  // async-signal-unsafe, but the process is dying anyway
  FILE *f = fopen(S.crash.c_str(), "w");
  if (f) {
    fprintf(f, "{\"property\":\"%s\",\"sub\":\"%s\",\"crash\":true,\"case\":%s}\n", S.property.c_str(),
            S.current_sub.c_str(), S.current_case.c_str());
    fclose(f);
  }
  S.in_case = false;
  flush_stats();
}
// CPU-time (not wall-clock) budget per case: code that does not come back within VV_CASE_CPU_S seconds of *process CPU
// time* (default 60; normal cases take micro- to milliseconds) is reported as non-termination.  CPU time does not
// depend on the load of the machine, so this is not a wall-clock oracle.
inline long &case_cpu_budget_s() {
  static long v = [] {
    const char *e = getenv("VV_CASE_CPU_S");
    return e ? atol(e) : 60L;
  }();
  return v;
}
inline void arm_cpu_watchdog(bool on) {
  struct itimerval it;
  memset(&it, 0, sizeof it);
  if (on) it.it_value.tv_sec = case_cpu_budget_s();
  setitimer(ITIMER_VIRTUAL, &it, nullptr);
}
inline void on_cpu_budget(int) {
  State &S = st();
  if (S.in_case && !S.crash.empty()) {
    FILE *f = fopen(S.crash.c_str(), "w");
    if (f) {
      fprintf(f, "{\"property\":\"%s\",\"sub\":\"%s\",\"crash\":true,\"cpu_budget\":true,\"case\":%s}\n", S.property.c_str(),
              S.current_sub.c_str(), S.current_case.c_str());
      fclose(f);
    }
    S.in_case = false;
    flush_stats();
  }
  fprintf(stderr, "VV: case exceeded its CPU budget of %ld s (non-termination?)\n", case_cpu_budget_s());
  _exit(87);
}
inline void on_sigabrt(int) {
  dump_crash();
  signal(SIGABRT, SIG_DFL);
  // do not re-raise through ASan's handler; just die with the conventional code
  _exit(134);
}

inline Result run_guarded(const Sub &sub, const json &c) {
  State &S = st();
  S.current_sub = sub.name;
  S.current_case = c.dump();
  S.in_case = true;
  arm_cpu_watchdog(true);
  Result r;
  try {
    r = sub.run(c);
  } catch (const std::exception &e) {
    r.fail("unexpected-exception", std::string("unexpected exception: ") + e.what());
  }
  arm_cpu_watchdog(false);
  S.in_case = false;
  return r;
}

inline void account(const Sub &sub, const json &c, const Result &r) {
  SubStats &ss = st().stats[sub.name];
  if (r.discard) {
    ss.discards++;
    return;
  }
  ss.evaluations++;
  for (auto &cl : r.classes) ss.classes[cl]++;
  if (r.nontrivial) {
    bool fresh = ss.nontrivial.insert(fnv(st().current_case)).second;
    if (fresh) {
      if (ss.samples.size() < 2)
        ss.samples.push_back(c);
      else if (ss.nontrivial.size() % 64 == 0 && ss.samples.size() < 4)
        ss.samples.push_back(c);
      ss.last_nt = c;
    }
  }
  if ((ss.evaluations & 1023) == 0) flush_stats();
}

// ---------------------------------------------------------------- main
inline int harness_main(int argc, char **argv, const std::string &property, std::vector<Sub> subs) {
  State &S = st();
  S.property = property;
  long cases = 1000;
  uint64_t seed = 1;
  std::string replay, only;
  int size_override = -1;
  int enum_level = 0;
  long shard_k = 0, shard_n = 1;  // enumerations are split between the processes of one run
  for (int i = 1; i < argc; ++i) {
    std::string a = argv[i];
    auto next = [&]() -> std::string { return (i + 1 < argc) ? argv[++i] : ""; };
    if (a == "--out") S.out = next();
    else if (a == "--crash") S.crash = next();
    else if (a == "--cases") cases = atol(next().c_str());
    else if (a == "--seed") seed = strtoull(next().c_str(), nullptr, 10);
    else if (a == "--replay") replay = next();
    else if (a == "--sub") only = next();
    else if (a == "--max-size") size_override = atoi(next().c_str());
    else if (a == "--enum") enum_level = atoi(next().c_str());
    else if (a == "--shard") {
      shard_k = atol(next().c_str());
      shard_n = std::max(1L, atol(next().c_str()));
    }
    else if (a == "--list") {
      for (auto &s : subs) std::cout << s.name << "\n";
      return 0;
    }
  }
  if (__sanitizer_set_death_callback) __sanitizer_set_death_callback(dump_crash);
  signal(SIGABRT, on_sigabrt);
  signal(SIGVTALRM, on_cpu_budget);

  if (!replay.empty()) {
    std::ifstream f(replay);
    json j = json::parse(f);
    std::string sn = j.at("sub");
    for (auto &s : subs) {
      if (s.name != sn) continue;
      Result r = run_guarded(s, j.at("case"));
      if (r.discard) {
        std::cout << "REPLAY-DISCARD sub=" << sn << "\n";
        return 0;
      }
      if (!r.ok) {
        std::cout << "REPLAY-FAIL sub=" << sn << " key=" << r.key << " :: " << r.msg << "\n";
        return 1;
      }
      std::cout << "REPLAY-PASS sub=" << sn << "\n";
      return 0;
    }
    std::cout << "REPLAY-UNKNOWN-SUB " << sn << "\n";
    return 3;
  }

  double total_share = 0;
  for (auto &s : subs)
    if (only.empty() || s.name == only) total_share += s.share;
  int rc_fail = 0;
  for (auto &sub : subs) {
    if (!only.empty() && sub.name != only) continue;
    rc::detail::TestParams params;
    params.seed = seed * 1000003ull + fnv(sub.name) % 1000003ull;
    params.maxSuccess = int(std::max(1.0, double(cases) * sub.share / total_share));
    params.maxSize = size_override >= 0 ? size_override : sub.max_size;
    params.maxDiscardRatio = 20;
    rc::detail::TestMetadata md;
    md.id = sub.name;
    md.description = sub.name;
    json last_fail_case;
    Result last_fail;
    S.stats[sub.name];
    if (sub.enumerate && enum_level > 0) {
      long n_enum = 0;
      long enum_index = 0;
      sub.enumerate(enum_level, [&](const json &c) {
        if ((enum_index++ % shard_n) != shard_k) return true;
        Result r = run_guarded(sub, c);
        account(sub, c, r);
        ++n_enum;
        if (!r.ok && !r.discard) {
          json f;
          f["property"] = property;
          f["sub"] = sub.name;
          f["key"] = r.key;
          f["msg"] = r.msg;
          f["case"] = c;
          S.failures.push_back(f);
          std::cerr << "FAIL(enum) sub=" << sub.name << " key=" << r.key << " :: " << r.msg << "\n";
          rc_fail = 1;
          return false;  // stop enumeration at the first failure
        }
        return true;
      });
      S.stats[sub.name].classes["enumerated(level=" + std::to_string(enum_level) + ")"] = n_enum;
      flush_stats();
    }
    if (!sub.gen) continue;
    auto result = rc::detail::checkTestable(
        [&]() {
          json c = sub.gen();
          Result r = run_guarded(sub, c);
          account(sub, c, r);
          if (r.discard) RC_DISCARD("discard");
          if (!r.ok) {
            last_fail_case = c;
            last_fail = r;
            RC_FAIL(r.msg);
          }
        },
        md, params);
    if (!result.template is<rc::detail::SuccessResult>()) {
      if (!last_fail_case.is_null()) {
        json f;
        f["property"] = property;
        f["sub"] = sub.name;
        f["key"] = last_fail.key;
        f["msg"] = last_fail.msg;
        f["case"] = last_fail_case;
        S.failures.push_back(f);
        std::cerr << "FAIL sub=" << sub.name << " key=" << last_fail.key << " :: " << last_fail.msg << "\n";
        rc_fail = 1;
      } else {
        // gave up (too many discards) or generator error: not a violation, but reported
        std::ostringstream os;
        rc::detail::printResultMessage(result, os);
        json f;
        f["property"] = property;
        f["sub"] = sub.name;
        f["key"] = "harness-gave-up";
        f["msg"] = os.str();
        f["gave_up"] = true;
        S.failures.push_back(f);
        std::cerr << "GAVE-UP sub=" << sub.name << " :: " << os.str() << "\n";
      }
    }
    flush_stats();
  }
  flush_stats();
  return rc_fail;
}

}  // namespace vv
