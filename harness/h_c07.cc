// C07 — every analytic derivative equals the numerical derivative of its value function.
//  (i)   IBond / IAngle / IDihedral: Grad vs Richardson-extrapolated central differences of EvaluateVar, sum of
//        gradients zero, invariance of value and gradient under translation, rotation (open box) and per-bead
//        periodic-image shifts (any box).
//  (ii)  PotentialFunctionLJ126 / LJG / CBSPL: CalculateDF, CalculateD2F vs numerical parameter derivatives of
//        CalculateF / CalculateDF, D2F symmetric, SavePotTab rows == CalculateF on the requested grid.
//  (iii) LinSpline / CubicSpline / AkimaSpline: CalculateDerivative vs numerical derivative of Calculate
//        (central inside an interval, one-sided at knots).
#include "h_c12_gen.h"

#include <votca/csg/interaction.h>
#include <votca/csg/potentialfunctions/potentialfunctioncbspl.h>
#include <votca/csg/potentialfunctions/potentialfunctionlj126.h>
#include <votca/csg/potentialfunctions/potentialfunctionljg.h>
#include <votca/csg/topology.h>

using namespace vv;
using namespace c12;
using votca::Index;
namespace csg = votca::csg;

// =================================================================== (i) bonded interactions
typedef std::array<ld, 3> V3;
static V3 sub(const V3 &a, const V3 &b) { return {a[0] - b[0], a[1] - b[1], a[2] - b[2]}; }
static ld dot(const V3 &a, const V3 &b) { return a[0] * b[0] + a[1] * b[1] + a[2] * b[2]; }
static V3 cross(const V3 &a, const V3 &b) {
  return {a[1] * b[2] - a[2] * b[1], a[2] * b[0] - a[0] * b[2], a[0] * b[1] - a[1] * b[0]};
}
static ld norm(const V3 &a) { return sqrtl(dot(a, a)); }
static const double LAT = 1073741824.0;  // 2^30: positions live on a 2^-30 lattice so that x +- 2^-k is exact
static double snap(double v) { return std::nearbyint(v * LAT) / LAT; }

struct Geo {
  int nb = 0;
  std::vector<V3> d;     // bond vectors p[k+1]-p[k]
  ld Lmin = 0, Lmax = 0;
  ld smin = 1;           // min sine of the bond angles (and |sin phi| for tolerances: smin_tol)
  ld smin_tol = 1;
  std::vector<ld> theta;  // bond angles (degrees)
  ld phi = 0;             // dihedral (degrees, sign convention irrelevant)
  bool ok = true;
  std::string why;
};

static Geo geometry(const std::vector<V3> &p) {
  Geo g;
  g.nb = int(p.size());
  g.Lmin = HUGE_VALL;
  for (size_t k = 0; k + 1 < p.size(); ++k) {
    g.d.push_back(sub(p[k + 1], p[k]));
    ld L = norm(g.d.back());
    g.Lmin = std::min(g.Lmin, L);
    g.Lmax = std::max(g.Lmax, L);
  }
  if (!(g.Lmin > 0)) {
    g.ok = false;
    g.why = "zero bond";
    return g;
  }
  for (size_t k = 0; k + 1 < g.d.size(); ++k) {
    V3 a = {-g.d[k][0], -g.d[k][1], -g.d[k][2]};
    V3 c = cross(a, g.d[k + 1]);
    ld th = atan2l(norm(c), dot(a, g.d[k + 1]));
    g.theta.push_back(th * 180 / M_PIl);
    g.smin = std::min(g.smin, sinl(th));
  }
  g.smin_tol = g.smin;
  if (g.nb == 4) {
    V3 n1 = cross(g.d[0], g.d[1]), n2 = cross(g.d[1], g.d[2]);
    ld y = dot(cross(n1, n2), g.d[1]) / norm(g.d[1]), x = dot(n1, n2);
    g.phi = atan2l(y, x) * 180 / M_PIl;
    g.smin_tol = std::min(g.smin, fabsl(sinl(g.phi * M_PIl / 180)));
  }
  return g;
}

struct BoxSpec {
  Eigen::Matrix3d m = Eigen::Matrix3d::Zero();
  csg::BoundaryCondition::eBoxtype type = csg::BoundaryCondition::typeOpen;
  bool periodic = false;
};

static BoxSpec read_box(const json &c) {
  BoxSpec b;
  std::string t = c.at("boxtype");
  auto &bj = c.at("box");  // three box vectors a, b, c = columns of the VOTCA box matrix
  for (int col = 0; col < 3; ++col)
    for (int row = 0; row < 3; ++row) b.m(row, col) = bj[size_t(col)][size_t(row)].get<double>();
  if (t == "open")
    b.type = csg::BoundaryCondition::typeOpen;
  else if (t == "ortho")
    b.type = csg::BoundaryCondition::typeOrthorhombic;
  else if (t == "tric")
    b.type = csg::BoundaryCondition::typeTriclinic;
  else
    b.type = csg::BoundaryCondition::typeAuto;
  b.periodic = !(t == "open" || (t == "auto" && b.m.isZero()));
  return b;
}

static std::unique_ptr<csg::Interaction> make_ia(int nb) {
  if (nb == 2) return std::make_unique<csg::IBond>(0, 1);
  if (nb == 3) return std::make_unique<csg::IAngle>(0, 1, 2);
  return std::make_unique<csg::IDihedral>(0, 1, 2, 3);
}

struct Eval {
  double value = 0;
  std::vector<Eigen::Vector3d> grad;
};

static void fill_top(csg::Topology &top, const BoxSpec &box, const std::vector<std::array<double, 3>> &pos) {
  top.setBox(box.m, box.type);
  for (size_t i = 0; i < pos.size(); ++i) {
    csg::Bead *b = top.CreateBead(csg::Bead::spherical, "b" + std::to_string(i), "T", 0, 1.0, 0.0);
    b->setPos(Eigen::Vector3d(pos[i][0], pos[i][1], pos[i][2]));
  }
}

static Eval evaluate(const BoxSpec &box, const std::vector<std::array<double, 3>> &pos) {
  csg::Topology top;
  top.RegisterBeadType("T");
  fill_top(top, box, pos);
  auto ia = make_ia(int(pos.size()));
  Eval e;
  e.value = ia->EvaluateVar(top);
  for (size_t b = 0; b < pos.size(); ++b) e.grad.push_back(ia->Grad(top, Index(b)));
  return e;
}

static std::array<double, 3> shifted(const std::array<double, 3> &p, const BoxSpec &box, const json &sh, const std::array<double, 3> &t) {
  std::array<double, 3> r;
  for (int k = 0; k < 3; ++k) {
    ld v = (ld)p[size_t(k)] + (ld)t[size_t(k)];
    for (int col = 0; col < 3; ++col) v += (ld)box.m(k, col) * (ld)sh[size_t(col)].get<long>();
    r[size_t(k)] = double(v);
  }
  return r;
}

static Result run_bonded(const json &c) {
  Result r;
  const std::string kind = c.at("kind");
  const int nb = kind == "bond" ? 2 : (kind == "angle" ? 3 : 4);
  const std::string cname = nb == 2 ? "IBond" : (nb == 3 ? "IAngle" : "IDihedral");
  BoxSpec box = read_box(c);
  if (c.value("weak_tilt", false)) r.cls("box:barely-tilted");
  std::vector<std::array<double, 3>> p;
  for (auto &pj : c.at("p")) p.push_back({snap(pj[0].get<double>()), snap(pj[1].get<double>()), snap(pj[2].get<double>())});
  if (int(p.size()) != nb) {
    r.discard = true;
    return r;
  }
  std::vector<V3> pl;
  for (auto &q : p) pl.push_back({(ld)q[0], (ld)q[1], (ld)q[2]});
  Geo g = geometry(pl);
  // ---- domain (DESIGN C07): away from the documented singular geometries, bonds unambiguous under minimum image
  bool dom = g.ok;
  // (the angle itself is smooth up to the collinear geometries: 0.4 degrees away for IAngle; the dihedral also divides by
  // the sines of its two bond angles and keeps 3 degrees)
  const ld thmin = nb == 3 ? 0.4L : 3.0L;
  for (ld th : g.theta)
    if (!(th > thmin && th < 180 - thmin)) dom = false;
  if (nb == 4 && !(fabsl(g.phi) > 3 && fabsl(g.phi) < 177)) dom = false;
  if (dom && !(g.Lmax / g.Lmin <= 10.5L && g.Lmin >= 5e-4L)) dom = false;
  if (dom && box.periodic) {
    // GROMACS-reduced cell required by the code's comment; every bond component below 0.45 of its cell height
    if (!(box.m(0, 0) > 0 && box.m(1, 1) > 0 && box.m(2, 2) > 0 && box.m(1, 0) == 0 && box.m(2, 0) == 0 && box.m(2, 1) == 0))
      dom = false;
    if (std::fabs(box.m(0, 1)) > 0.5 * box.m(0, 0) || std::fabs(box.m(0, 2)) > 0.5 * box.m(0, 0) ||
        std::fabs(box.m(1, 2)) > 0.5 * box.m(1, 1))
      dom = false;
    std::string bt = c.at("boxtype");
    if (bt == "ortho" && !(box.m(0, 1) == 0 && box.m(0, 2) == 0 && box.m(1, 2) == 0)) dom = false;
    for (auto &d : g.d)
      for (int k = 0; k < 3; ++k)
        if (!(fabsl(d[size_t(k)]) <= 0.45L * box.m(k, k))) dom = false;
  }
  if (!dom) {
    r.discard = true;
    return r;
  }
  const std::array<double, 3> zero{0, 0, 0};
  // ---- configuration A: small image shifts (exactly representable positions)
  std::vector<std::array<double, 3>> A;
  bool anyshift = false;
  for (int b = 0; b < nb; ++b) {
    const json &sh = c.at("shift")[size_t(b)];
    if (!box.periodic && (sh[0] != 0 || sh[1] != 0 || sh[2] != 0)) {
      r.discard = true;
      return r;
    }
    for (int k = 0; k < 3; ++k) {
      if (std::labs(sh[size_t(k)].get<long>()) > 2) {
        r.discard = true;
        return r;
      }
      if (sh[size_t(k)] != 0) anyshift = true;
    }
    A.push_back(shifted(p[size_t(b)], box, sh, zero));
  }
  ld cmaxA = 0;
  for (auto &q : A)
    for (double v : q) cmaxA = std::max(cmaxA, (ld)std::fabs(v));
  if (cmaxA > 4096) {  // x +- h must stay exact on the lattice
    r.discard = true;
    return r;
  }
  // ---- classes / non-triviality
  r.cls(std::string(c.at("boxtype")) + (box.periodic ? "" : "(open)"));
  if (anyshift) r.cls("image-shift");
  bool unequal = g.Lmax / g.Lmin > 1.05L;
  bool off90 = true;
  for (ld th : g.theta)
    if (fabsl(th - 90) <= 5) off90 = false;
  if (nb == 2)
    r.nontrivial = box.periodic && anyshift;
  else
    r.nontrivial = unequal && off90;
  if (unequal) r.cls("lengths-differ>5%");
  if (nb > 2 && off90) r.cls("angles-off-90deg");
  for (ld th : g.theta) {
    if (th < 10 || th > 170) r.cls("angle-near-collinear(3..10deg)");
    if (th < 2 || th > 178) r.cls("angle-within-2deg-of-collinear");
  }
  if (nb == 4 && (fabsl(g.phi) < 10 || fabsl(g.phi) > 170)) r.cls("dihedral-near-0/180");

  // ---- analytic gradient and numerical gradient at A
  csg::Topology top;
  top.RegisterBeadType("T");
  fill_top(top, box, A);
  auto ia = make_ia(nb);
  const double v0 = ia->EvaluateVar(top);
  if (!std::isfinite(v0)) {
    r.fail(cname + "::EvaluateVar", fmt("value not finite: %g", v0));
    return r;
  }
  std::vector<Eigen::Vector3d> ga;
  for (int b = 0; b < nb; ++b) ga.push_back(ia->Grad(top, b));
  // step: the interaction changes by at most h/(Lmin smin) radians (h/Lmin relative for the bond) -> 1/32
  double hraw = double(g.Lmin * (nb == 2 ? 1.0L : g.smin) / 32);
  double h = std::ldexp(1.0, int(std::floor(std::log2(hraw))));
  std::vector<std::array<ND, 3>> num(static_cast<size_t>(nb));
  ld gscale = 0;
  for (int b = 0; b < nb; ++b)
    for (int k = 0; k < 3; ++k) {
      csg::Bead *bead = top.getBead(b);
      const Eigen::Vector3d p0 = bead->getPos();
      auto f = [&](double xx) {
        Eigen::Vector3d q = p0;
        q[k] = xx;
        bead->setPos(q);
        double v = ia->EvaluateVar(top);
        bead->setPos(p0);
        return v;
      };
      num[size_t(b)][size_t(k)] = nd_central(f, p0[k], h);
      gscale = std::max(gscale, fabsl(num[size_t(b)][size_t(k)].d));
    }
  // noise of EvaluateVar itself: eps/sin for acos, amplified by 1/hmin and the extrapolation weights (< 8)
  const ld fnoise = (nb == 2 ? (ld)EPS * 8 * g.Lmax : (ld)EPS * 16 / g.smin_tol);
  bool sum_excluded = false;
  for (int b = 0; b < nb; ++b) {
    std::string key = nb == 2 ? "IBond::Grad" : cname + "::Grad/bead" + std::to_string(b);
    if (known(key)) {
      r.cls("excluded-known:" + key);
      sum_excluded = true;
      continue;
    }
    for (int k = 0; k < 3; ++k) {
      const ND &n = num[size_t(b)][size_t(k)];
      if (!n.finite) {
        r.fail(cname + "::EvaluateVar", "value not finite next to the configuration");
        return r;
      }
      ld tol = 100 * n.err + 1e-7L * gscale + 8 * fnoise / n.hmin;
      ld got = ga[size_t(b)][k];
      if (!(fabsl(got - n.d) <= tol))
        r.fail(key, fmt("d%s/dr%d[%d]: Grad=%.12Lg numerical=%.12Lg (+-%.3Lg) tol=%.3Lg; lengths %.6Lg..%.6Lg, angles %s phi=%.4Lg", kind.c_str(),
                        b, k, got, n.d, n.err, tol, g.Lmin, g.Lmax,
                        [&] {
                          std::string s;
                          for (ld th : g.theta) s += fmt("%.4Lg ", th);
                          return s;
                        }()
                            .c_str(),
                        g.phi));
    }
  }
  if (!r.ok) return r;
  // ---- sum of the gradients of one interaction is zero
  if (!sum_excluded) {
    Eigen::Vector3d s = Eigen::Vector3d::Zero();
    double gm = 0;
    for (auto &v : ga) {
      s += v;
      gm = std::max(gm, v.cwiseAbs().maxCoeff());
    }
    if (!(s.cwiseAbs().maxCoeff() <= 1e-10 * gm + 1e-300))
      r.fail(cname + "::Grad/sum", fmt("sum of gradients = (%g %g %g), largest gradient component %g", s[0], s[1], s[2], gm));
  } else
    r.cls("excluded-known:sum-check");
  if (!r.ok) return r;

  // ---- invariance: per-bead image shifts (incl. huge ones) + translation, any box
  auto cmp = [&](const char *what, const std::string &key, const Eval &e, const std::vector<Eigen::Vector3d> &gexp, ld cmax) {
    ld kappa = 64 * (ld)EPS * (cmax / g.Lmin) / (g.smin_tol * g.smin_tol);
    ld tv = nb == 2 ? 64 * (ld)EPS * cmax : kappa;
    if (!(fabsl((ld)e.value - (ld)v0) <= tv + 8 * fnoise)) {
      r.fail(key, fmt("%s changes the value: %.15g -> %.15g (tol %.3Lg)", what, v0, e.value, tv));
      return;
    }
    double gm = 0;
    for (auto &v : gexp) gm = std::max(gm, v.cwiseAbs().maxCoeff());
    ld tg = gm * (kappa + 256 * (ld)EPS / (g.smin_tol * g.smin_tol));
    for (int b = 0; b < nb; ++b) {
      double dev = (e.grad[size_t(b)] - gexp[size_t(b)]).cwiseAbs().maxCoeff();
      if (!(dev <= tg)) {
        r.fail(key, fmt("%s changes the gradient of bead %d by %g (tol %.3Lg, |grad| %g)", what, b, dev, tg, gm));
        return;
      }
    }
  };
  {
    std::array<double, 3> t{c.at("trans")[0].get<double>(), c.at("trans")[1].get<double>(), c.at("trans")[2].get<double>()};
    std::vector<std::array<double, 3>> B;
    ld cmax = cmaxA;
    bool big = false;
    for (int b = 0; b < nb; ++b) {
      json sh = box.periodic ? c.at("bigshift")[size_t(b)] : json::array({0, 0, 0});
      for (int k = 0; k < 3; ++k)
        if (std::labs(sh[size_t(k)].get<long>()) >= 1000) big = true;
      B.push_back(shifted(p[size_t(b)], box, sh, t));
      for (double v : B.back()) cmax = std::max(cmax, (ld)std::fabs(v));
    }
    if (big) r.cls("image-shift>=1000");
    Eval e = evaluate(box, B);
    cmp(box.periodic ? "image shift + translation" : "translation", cname + (box.periodic ? "/image-invariance" : "/rigid-motion"), e, ga, cmax);
  }
  if (!r.ok) return r;
  // ---- invariance: rotation + translation (open box only; a periodic cell is not rotation invariant)
  if (!box.periodic) {
    const json &q = c.at("rot");
    ld a = q[0].get<long>(), bq = q[1].get<long>(), cq = q[2].get<long>(), dq = q[3].get<long>();
    ld nn = a * a + bq * bq + cq * cq + dq * dq;
    if (nn > 0) {
      ld R[3][3] = {{(a * a + bq * bq - cq * cq - dq * dq) / nn, 2 * (bq * cq - a * dq) / nn, 2 * (bq * dq + a * cq) / nn},
                    {2 * (bq * cq + a * dq) / nn, (a * a - bq * bq + cq * cq - dq * dq) / nn, 2 * (cq * dq - a * bq) / nn},
                    {2 * (bq * dq - a * cq) / nn, 2 * (cq * dq + a * bq) / nn, (a * a - bq * bq - cq * cq + dq * dq) / nn}};
      std::vector<std::array<double, 3>> C;
      ld cmax = cmaxA;
      for (int b = 0; b < nb; ++b) {
        std::array<double, 3> qv;
        for (int i = 0; i < 3; ++i) {
          ld v = c.at("trans")[size_t(i)].get<double>();
          for (int k = 0; k < 3; ++k) v += R[i][k] * (ld)A[size_t(b)][size_t(k)];
          qv[size_t(i)] = double(v);
          cmax = std::max(cmax, fabsl(v));
        }
        C.push_back(qv);
      }
      std::vector<Eigen::Vector3d> gexp;
      for (int b = 0; b < nb; ++b) {
        Eigen::Vector3d v;
        for (int i = 0; i < 3; ++i) {
          ld s = 0;
          for (int k = 0; k < 3; ++k) s += R[i][k] * (ld)ga[size_t(b)][k];
          v[i] = double(s);
        }
        gexp.push_back(v);
      }
      r.cls("rotation");
      Eval e = evaluate(box, C);
      cmp("rotation + translation", cname + "/rigid-motion", e, gexp, cmax);
    }
  }
  return r;
}

// ---- generator
static json gen_bonded(const std::string &kind) {
  const int nb = kind == "bond" ? 2 : (kind == "angle" ? 3 : 4);
  json c;
  c["kind"] = kind;
  // box
  int bk = ri(0, 19);
  auto edge = [&]() {
    int k = ri(0, 2);
    return double(k == 0 ? ri(7, 32) : (k == 1 ? ri(32, 160) : ri(160, 800))) / 16.0;
  };
  double ax = 0, by = 0, cz = 0, bx = 0, cx = 0, cy = 0;
  std::string bt;
  if (bk < 5) {
    bt = rbool(50) ? "open" : "auto";
  } else if (bk < 12) {
    ax = edge(), by = edge(), cz = edge();
    bt = pick<std::string>({"ortho", "auto", "tric"});
  } else {
    ax = edge(), by = edge(), cz = edge();
    auto off = [&](double lim) {  // multiples of 1/32 in [-lim/2, lim/2], boundary values included
      long m = long(std::floor(lim / 2 * 32));
      int k = ri(0, 5);
      if (k == 0) return double(m) / 32.0;
      if (k == 1) return -double(m) / 32.0;
      return double(rl(-m, m)) / 32.0;
    };
    bx = off(ax), cx = off(ax), cy = off(by);
    if (rbool(25)) {
      // barely tilted cells (2^-12 .. 2^-36 of an edge): still triclinic, the image shifts must use the tilted vectors
      auto weak = [&](double e) { return (rbool(50) ? 1.0 : -1.0) * e * std::pow(2.0, -double(ri(12, 36))); };
      bx = weak(ax), cx = rbool(50) ? weak(ax) : 0.0, cy = rbool(50) ? weak(by) : 0.0;
      c["weak_tilt"] = true;
    }
    bt = rbool(50) ? "tric" : "auto";
  }
  c["boxtype"] = bt;
  c["box"] = {{ax, 0.0, 0.0}, {bx, by, 0.0}, {cx, cy, cz}};
  bool periodic = ax > 0;
  double Lcap = periodic ? std::min(4.0, 0.42 * std::min(ax, std::min(by, cz))) : 4.0;
  // internal coordinates
  double Lref = Lcap * std::pow(2.0, -double(ri(0, 16)) / 4.0);
  double L[3];
  for (int i = 0; i < 3; ++i) {
    double ratio = rbool(15) ? 1.0 : std::pow(10.0, double(ri(-16, 16)) / 16.0);
    L[i] = std::min(Lcap, std::max(Lcap / 160.0, Lref * ratio));
  }
  // keep all ratios within 0.1..10
  double Lmin = std::min(L[0], std::min(L[1], L[2])), Lmax = std::max(L[0], std::max(L[1], L[2]));
  if (Lmax / Lmin > 10.0)
    for (int i = 0; i < 3; ++i) L[i] = std::max(L[i], Lmax / 10.0);
  auto angle = [&]() {
    int k = ri(0, 9);
    double deg;
    if (k == 0)
      deg = pick<double>({90.0, 60.0, 120.0, 45.0, 135.0, 109.5});
    else if (k == 1)
      deg = pick<double>({3.5, 4.0, 176.0, 176.5, 5.0, 175.0});
    else if (k == 2 && rbool(50))  // stretched / folded (the acos derivative is large there, not singular)
      deg = pick<double>({0.5, 0.75, 1.0, 1.5, 178.5, 179.0, 179.25, 179.5});
    else
      deg = double(ri(28, 1412)) / 8.0;
    return deg * M_PI / 180.0;
  };
  double th1 = angle(), th2 = angle();
  double phi;
  {
    int k = ri(0, 9);
    double deg = k == 0 ? pick<double>({3.5, 4.0, 176.5, 176.0, 90.0, 60.0}) : double(ri(28, 1412)) / 8.0;
    phi = (rbool(50) ? -deg : deg) * M_PI / 180.0;
  }
  Eigen::Vector3d P[4];
  P[0] = Eigen::Vector3d::Zero();
  P[1] = P[0] + L[0] * Eigen::Vector3d::UnitX();
  P[2] = P[1] + L[1] * Eigen::Vector3d(-std::cos(th1), std::sin(th1), 0);
  {
    Eigen::Vector3d bc = (P[2] - P[1]).normalized();
    Eigen::Vector3d n = (P[1] - P[0]).cross(bc).normalized();
    Eigen::Vector3d m = n.cross(bc);
    P[3] = P[2] + L[2] * (-std::cos(th2) * bc + std::sin(th2) * std::cos(phi) * m + std::sin(th2) * std::sin(phi) * n);
  }
  // random orientation (integer quaternion), first bead anywhere in the cell
  Eigen::Quaterniond q(double(ri(-8, 8)), double(ri(-8, 8)), double(ri(-8, 8)), double(ri(-8, 8)));
  if (q.norm() == 0) q = Eigen::Quaterniond::Identity();
  q.normalize();
  Eigen::Matrix3d R = q.toRotationMatrix();
  Eigen::Vector3d origin;
  if (periodic) {
    Eigen::Vector3d fr(double(ri(0, 63)) / 64.0, double(ri(0, 63)) / 64.0, double(ri(0, 63)) / 64.0);
    origin = Eigen::Vector3d(ax * fr[0] + bx * fr[1] + cx * fr[2], by * fr[1] + cy * fr[2], cz * fr[2]);
  } else
    origin = Eigen::Vector3d(rfrac(-320, 320, 64), rfrac(-320, 320, 64), rfrac(-320, 320, 64));
  json p = json::array(), sh = json::array(), bsh = json::array();
  for (int b = 0; b < nb; ++b) {
    Eigen::Vector3d v = origin + R * P[b];
    p.push_back({snap(v[0]), snap(v[1]), snap(v[2])});
    json s = json::array(), bs = json::array();
    for (int k = 0; k < 3; ++k) {
      s.push_back(periodic && rbool(40) ? long(ri(-2, 2)) : 0L);
      long big = 0;
      if (periodic) {
        int w = ri(0, 9);
        big = w < 4 ? 0L : (w < 7 ? long(ri(-2, 2)) : pick<long>({1000L, -1000L, 1000000L, -1000000L}));
      }
      bs.push_back(big);
    }
    sh.push_back(s);
    bsh.push_back(bs);
  }
  c["p"] = p;
  c["shift"] = sh;
  c["bigshift"] = bsh;
  c["trans"] = {rfrac(-6400, 6400, 64), rfrac(-6400, 6400, 64), rfrac(-6400, 6400, 64)};
  c["rot"] = {ri(-8, 8), ri(-8, 8), ri(-8, 8), ri(-8, 8)};
  return c;
}

// =================================================================== (ii) potential functions
struct StdoutSilencer {  // PotentialFunctionCBSPL::extrapolExclParam chats on std::cout
  std::ostringstream sink;
  std::streambuf *old;
  StdoutSilencer() : old(std::cout.rdbuf(sink.rdbuf())) {}
  ~StdoutSilencer() { std::cout.rdbuf(old); }
};

struct PotCtx {
  std::string form;
  std::unique_ptr<csg::PotentialFunction> pf;
  csg::PotentialFunctionCBSPL *cb = nullptr;
  Index nopt = 0;
  double min = 0, cut = 0;
  std::vector<double> lam;
  double dr = 0;  // CBSPL knot distance (own computation: cut/(nlam-3))
  void set(Index i, double v) {
    if (cb)
      cb->setOptParam(i, v);
    else
      pf->setParam(i, v);
  }
  double get(Index i) const { return cb ? cb->getOptParam(i) : pf->getParam(i); }
};

// magnitude of the terms that are summed in F (own formula from the documented functional forms)
static ld fmag(const PotCtx &P, double r) {
  if (P.form == "cbspl") {
    // |sum_k lam_k B_k(r)| is computed through (R^T M) B with entries of M up to 4/6 and |t|<=1
    Index n = Index(P.pf->getParamSize());
    Index idx = Index(std::floor(r / P.dr));
    ld m = 0;
    for (Index k = std::max<Index>(0, idx - 2); k <= std::min<Index>(n - 1, idx + 5); ++k) m = std::max(m, (ld)std::fabs(P.pf->getParam(k)));
    return 8 * m;
  }
  ld a = fabsl((ld)P.pf->getParam(0)) / powl(r, 12) + fabsl((ld)P.pf->getParam(1)) / powl(r, 6);
  if (P.form == "ljg") {
    ld u = (ld)r - P.pf->getParam(4);
    a += fabsl((ld)P.pf->getParam(2)) * expl(-(ld)P.pf->getParam(3) * u * u);
  }
  return a;
}

static bool make_pot(const json &c, PotCtx &P, std::string &err) {
  P.form = c.at("form");
  P.min = c.at("min");
  P.cut = c.at("cut");
  P.lam = c.at("lam").get<std::vector<double>>();
  try {
    if (P.form == "lj126")
      P.pf = std::make_unique<csg::PotentialFunctionLJ126>("p", P.min, P.cut);
    else if (P.form == "ljg")
      P.pf = std::make_unique<csg::PotentialFunctionLJG>("p", P.min, P.cut);
    else {
      auto q = std::make_unique<csg::PotentialFunctionCBSPL>("p", Index(P.lam.size()), P.min, P.cut);
      P.cb = q.get();
      P.pf = std::move(q);
      P.dr = P.cut / double(P.lam.size() - 3);
    }
  } catch (const std::runtime_error &e) {
    err = e.what();
    return false;
  }
  if (Index(P.lam.size()) != Index(P.pf->getParamSize())) {
    err = "size";
    return false;
  }
  for (size_t i = 0; i < P.lam.size(); ++i) P.pf->setParam(Index(i), P.lam[i]);
  P.nopt = Index(P.pf->getOptParamSize());
  return true;
}

// numerical derivative of g(param j) where g is CalculateF(r) (i<0) or CalculateDF(i,r)
static ND param_derivative(PotCtx &P, Index i, Index j, double r, ld &noise) {
  const double l0 = P.get(j);
  auto f = [&](double v) {
    P.set(j, v);
    double y = i < 0 ? P.pf->CalculateF(r) : P.pf->CalculateDF(i, r);
    P.set(j, l0);
    return y;
  };
  bool nonlinear = (P.form == "ljg" && j >= 3);
  double h;
  if (nonlinear) {
    ld u = (ld)r - P.pf->getParam(4), D = fabsl((ld)P.pf->getParam(3));
    if (j == 3)
      h = double(1 / (32 * (1 + u * u)));
    else
      h = double(1 / (32 * (1 + 2 * D * fabsl(u) + sqrtl(2 * D))));
  } else {
    // the value is linear in this parameter: any step is exact; take one that makes the difference dominate
    h = std::max(std::fabs(l0), 1.0 / 1024);
    for (int it = 0; it < 120; ++it) {
      double fp = f(l0 + h), fm = f(l0 - h);
      if (!std::isfinite(fp) || !std::isfinite(fm)) {
        h /= 2;
        break;
      }
      if (std::fabs(fp - fm) >= 0.25 * (std::fabs(fp) + std::fabs(fm)) && (fp != 0 || fm != 0)) break;
      if (fp == fm && it >= 8) break;  // does not depend on this parameter (a small step only loosens the noise term)
      h *= 2;
    }
  }
  h = std::ldexp(1.0, int(std::floor(std::log2(h))));
  ND n = nd_central(f, l0, h);
  ld mag = i < 0 ? std::max(fmag(P, r), n.fmag) : n.fmag;
  // + absolute floor for subnormal values (exp underflow): spacing 4.9e-324, amplified by 1/h
  noise = 32 * (ld)EPS * mag / n.hmin + 1e-300L * (1 + 1 / (ld)n.hmin);
  return n;
}

static Result run_pot(const json &c) {
  Result r;
  PotCtx P;
  std::string err;
  if (!make_pot(c, P, err)) {
    r.discard = true;  // documented rejection (not enough knots), or malformed replay file
    return r;
  }
  const std::string F = P.form == "lj126" ? "PotentialFunctionLJ126" : (P.form == "ljg" ? "PotentialFunctionLJG" : "PotentialFunctionCBSPL");
  r.cls(P.form);
  bool allnz = true;
  for (double v : P.lam)
    if (v == 0) allnz = false;
  // non-trivial: LJ forms = all parameters non-zero; CBSPL (8..40 knots, the last four usually zero by construction) = at least
  // 80 % of the knot values non-zero
  {
    size_t nz = 0;
    for (double v : P.lam) nz += v != 0;
    r.nontrivial = P.cb ? (10 * nz >= 8 * (P.lam.size() - 4)) : allnz;
  }
  if (P.cb) {
    // own computation of the number of excluded knots: knots k*dr <= min are excluded, plus one
    if (c.value("min_on_knot", false)) r.cls("min-on-knot");
  }
  std::vector<double> rs = c.at("r").get<std::vector<double>>();
  for (double rr : rs) {
    if (!(rr > 0) || !std::isfinite(rr)) {
      r.discard = true;
      return r;
    }
    bool inside = rr >= P.min && rr <= P.cut;
    r.cls(rr == P.min ? "r=min" : (rr == P.cut ? "r=cutoff" : (inside ? "r-inside" : "r-outside")));
    double f0 = P.pf->CalculateF(rr);
    if (!std::isfinite(f0)) {
      r.discard = true;  // overflow of the value itself: outside any sensible parameter domain
      return r;
    }
    // first derivatives
    std::vector<double> df(static_cast<size_t>(P.nopt));
    for (Index i = 0; i < P.nopt; ++i) {
      df[size_t(i)] = P.pf->CalculateDF(i, rr);
      ld noise;
      ND n = param_derivative(P, -1, i, rr, noise);
      if (!n.finite) continue;
      ld tol = 100 * n.err + 1e-7L * fabsl(n.d) + noise;
      if (noise > 1e-3L * fabsl(n.d) && n.d != 0) r.cls("DF-noise-dominated");
      if (!(fabsl((ld)df[size_t(i)] - n.d) <= tol))
        r.fail(F + "::CalculateDF", fmt("dF/dlam%ld at r=%.10g: DF=%.12g numerical=%.12Lg (+-%.3Lg, noise %.3Lg)", long(i), rr, df[size_t(i)], n.d,
                                        n.err, noise));
    }
    if (!r.ok) return r;
    // second derivatives: symmetric, and equal to the numerical derivative of DF
    // CBSPL (up to 35 free knots): numerical D2F only for the knots around r and the two outermost ones; symmetry for all
    auto selected = [&](Index i) {
      if (!P.cb) return true;
      Index nexcl = Index(P.lam.size()) - 4 - P.nopt;
      Index a = Index(std::floor(rr / P.dr)) - nexcl;
      return i == 0 || i == P.nopt - 1 || (i >= a - 1 && i <= a + 4);
    };
    for (Index i = 0; i < P.nopt; ++i)
      for (Index j = 0; j < P.nopt; ++j) {
        double d2 = P.pf->CalculateD2F(i, j, rr), d2t = P.pf->CalculateD2F(j, i, rr);
        if (!(selected(i) && selected(j))) {
          if (!close(d2, d2t, 1e-12, 1e-300)) {
            r.fail(F + "::CalculateD2F/symmetry", fmt("D2F(%ld,%ld)=%.15g but D2F(%ld,%ld)=%.15g at r=%.10g", long(i), long(j), d2, long(j), long(i), d2t, rr));
            return r;
          }
          continue;
        }
        if (!close(d2, d2t, 1e-12, 1e-300)) {
          r.fail(F + "::CalculateD2F/symmetry", fmt("D2F(%ld,%ld)=%.15g but D2F(%ld,%ld)=%.15g at r=%.10g", long(i), long(j), d2, long(j), long(i), d2t, rr));
          return r;
        }
        ld noise;
        ND n = param_derivative(P, i, j, rr, noise);
        if (!n.finite) continue;
        ld tol = 100 * n.err + 1e-7L * fabsl(n.d) + noise;
        if (!(fabsl((ld)d2 - n.d) <= tol)) {
          r.fail(F + "::CalculateD2F", fmt("d(DF%ld)/dlam%ld at r=%.10g: D2F=%.12g numerical=%.12Lg (+-%.3Lg, noise %.3Lg)", long(i), long(j), rr, d2, n.d,
                                           n.err, noise));
          return r;
        }
      }
  }
  // ---- SavePotTab: rows on the requested grid equal CalculateF
  double step = c.at("step");
  bool sub_range = c.value("subrange", false);
  double tmin = sub_range ? c.at("tmin").get<double>() : P.min, tmax = sub_range ? c.at("tmax").get<double>() : P.cut;
  if (!(step > 0) || !(tmax > tmin) || !(tmin > 0)) {
    r.discard = true;
    return r;
  }
  ld q = ((ld)tmax - (ld)tmin) / (ld)step;
  if (q > 5000) {
    r.discard = true;
    return r;
  }
  ld fracq = q - floorl(q + 0.5L);  // distance to the nearest integer
  bool exact = fabsl(fracq) < 1e-11L * (1 + q);
  bool clear_frac = (q - floorl(q)) > 0.05L && (q - floorl(q)) < 0.95L;
  if (!exact && !clear_frac) {
    r.cls("ambiguous-grid-size");
    return r;  // number of rows flips on a tie: not asserted
  }
  long nexp = exact ? long(floorl(q + 0.5L)) + 1 : long(floorl(q)) + 1;
  r.cls(exact ? "tab:step-divides-range" : "tab:last-interval-short");
  if (tmax > P.cut * (1 + 1e-12)) r.cls("tab:grid-beyond-cutoff");
  if (tmin < P.min * (1 - 1e-12)) r.cls("tab:grid-below-min");
  std::string fn = fmt("/verif/build/work/c07_pot_%d.tab", int(getpid()));
  {
    StdoutSilencer quiet;
    if (sub_range)
      P.pf->SavePotTab(fn, step, tmin, tmax);
    else
      P.pf->SavePotTab(fn, step);
  }
  std::ifstream in(fn);
  std::vector<std::array<double, 2>> rows;
  std::vector<std::string> flags;
  std::string line;
  bool parse_ok = bool(in);
  while (std::getline(in, line)) {
    if (line.empty() || line[0] == '#') continue;
    std::istringstream ls(line);
    std::string a, b, fl;
    ls >> a >> b >> fl;
    char *e1, *e2;
    double xv = strtod(a.c_str(), &e1), yv = strtod(b.c_str(), &e2);
    if (*e1 || *e2 || a.empty() || b.empty()) parse_ok = false;
    rows.push_back({xv, yv});
    flags.push_back(fl);
  }
  in.close();
  unlink(fn.c_str());
  if (!parse_ok) {
    r.fail(F + "::SavePotTab", "table file cannot be parsed as 'x y flag' rows");
    return r;
  }
  if (long(rows.size()) != nexp) {
    r.fail(F + "::SavePotTab", fmt("table %.10g:%.10g:%.10g has %zu rows, requested grid has %ld points", tmin, step, tmax, rows.size(), nexp));
    return r;
  }
  for (long k = 0; k < nexp; ++k) {
    double xk = (k == nexp - 1) ? tmax : double((ld)tmin + (ld)k * (ld)step);
    if (!close(rows[size_t(k)][0], xk, 2e-9, 1e-300)) {
      r.fail(F + "::SavePotTab", fmt("row %ld: x=%.12g, grid point %.12g", k, rows[size_t(k)][0], xk));
      return r;
    }
    double fk = P.pf->CalculateF(xk);  // state after SavePotTab (CBSPL extrapolates the excluded knots first)
    // 10 significant digits + the accumulation of the abscissa (k ulp) through |dF/dr| <= 12 |F_terms| / r
    ld tol = 1e-9L * fabsl((ld)fk) + 12 * fmag(P, xk) * (ld)(k + 2) * EPS * 4 + 1e-300L;
    // ambiguity band: the function jumps to 0 outside [min, cutoff]; an interior grid point that lands on min or on the
    // cutoff within the rounding of the accumulated abscissa may be tabulated from either side of the jump
    bool on_jump = k != nexp - 1 && k != 0 &&
                   (fabsl((ld)xk - (ld)P.cut) <= 8 * (ld)(k + 2) * EPS * fabsl((ld)P.cut) || fabsl((ld)xk - (ld)P.min) <= 8 * (ld)(k + 2) * EPS * fabsl((ld)P.min));
    if (on_jump) r.cls("tab:grid-point-on-jump(ambiguous)");
    if (!(fabsl((ld)rows[size_t(k)][1] - (ld)fk) <= tol) &&
        !(on_jump && (rows[size_t(k)][1] == 0.0 || fabsl((ld)rows[size_t(k)][1] - (ld)P.pf->CalculateF(fabsl((ld)xk - (ld)P.cut) < fabsl((ld)xk - (ld)P.min) ? P.cut : P.min)) <= tol + 1e-9L * fmag(P, xk)))) {
      r.fail(F + "::SavePotTab", fmt("row %ld (r=%.12g): tabulated %.12g, CalculateF %.12g", k, xk, rows[size_t(k)][1], fk));
      return r;
    }
    if (flags[size_t(k)] != "i") {
      r.fail(F + "::SavePotTab", fmt("row %ld: flag '%s' instead of 'i'", k, flags[size_t(k)].c_str()));
      return r;
    }
  }
  return r;
}

static json gen_pot(const std::string &form) {
  json c;
  c["form"] = form;
  auto sgn = [&](double v, int pneg) { return rbool(pneg) ? -v : v; };
  double mn, cut;
  std::vector<double> lam;
  std::vector<double> rs;
  if (form != "cbspl") {
    mn = double(ri(4, 64)) / 64.0;
    cut = mn + double(ri(8, 192)) / 64.0;
    auto coef = [&](int elo, int ehi, int pneg) { return rbool(6) ? 0.0 : sgn(rlog(elo, ehi), pneg); };
    lam.push_back(coef(-8, 2, 15));
    lam.push_back(coef(-6, 3, 15));
    if (form == "ljg") {
      lam.push_back(coef(-3, 3, 40));
      lam.push_back(rbool(6) ? 0.0 : (rbool(90) ? rlog(-1, 3) : -rlog(-2, -1)));
      lam.push_back(rbool(6) ? 0.0 : mn + (cut - mn) * double(ri(-8, 72)) / 64.0);
    }
  } else {
    int nlam = ri(8, 40);
    cut = double(ri(32, 192)) / 64.0;
    double dr = cut / double(nlam - 3);
    bool onknot = rbool(35);
    int kmin = ri(0, nlam - (onknot ? 7 : 6));
    mn = onknot ? double(kmin) * dr : (double(kmin) + double(ri(1, 63)) / 64.0) * dr;
    c["min_on_knot"] = onknot;
    for (int i = 0; i < nlam; ++i) lam.push_back(rbool(8) ? 0.0 : sgn(rlog(-3, 3), 40));
    if (rbool(50))
      for (int i = nlam - 4; i < nlam; ++i) lam[size_t(i)] = 0;  // as setParam(file) leaves them
    rs.push_back(double(ri(1, nlam - 3)) * dr);                   // on a break point
  }
  c["min"] = mn;
  c["cut"] = cut;
  c["lam"] = lam;
  rs.push_back(mn == 0 ? cut / 64 : mn);
  rs.push_back(cut);
  int nr = ri(1, 3);
  for (int i = 0; i < nr; ++i) rs.push_back(mn + (cut - mn) * double(ri(1, 255)) / 256.0);
  if (rbool(30)) rs.push_back(cut * 1.25);
  if (rbool(30) && mn > 0) rs.push_back(mn * 0.75);
  c["r"] = rs;
  // table grid
  bool subrange = rbool(30);
  double tmin = mn, tmax = cut;
  if (subrange) {
    tmin = mn + (cut - mn) * double(ri(0, 16)) / 64.0;
    tmax = cut - (cut - mn) * double(ri(0, 16)) / 64.0;
    // requested grids that reach beyond the function's own range [min, cutoff] (the function is 0 there)
    if (rbool(35)) tmax = cut * (1.0 + double(ri(1, 16)) / 32.0);
    if (rbool(20) && mn > 0) tmin = mn * double(ri(16, 31)) / 32.0;
  }
  if (!(tmin > 0)) {
    tmin = cut / 64;
    subrange = true;
  }
  int n = ri(1, 60);
  double step = rbool(60) ? (tmax - tmin) / double(n) : (tmax - tmin) / (double(n) + double(ri(8, 56)) / 64.0);
  c["subrange"] = subrange;
  c["tmin"] = tmin;
  c["tmax"] = tmax;
  c["step"] = step;
  return c;
}

// =================================================================== (iii) spline derivative
static Result run_spline(const json &c) {
  Result r;
  std::string type = c.at("type"), bc = c.at("bc"), mode = c.at("mode");
  std::vector<double> x = c.at("x").get<std::vector<double>>(), y = c.at("y").get<std::vector<double>>();
  Grid g = analyse(x);
  if (!g.valid || x.size() != y.size() || x.size() < min_points(type)) {
    r.discard = true;
    return r;
  }
  for (double v : y)
    if (!std::isfinite(v)) {
      r.discard = true;
      return r;
    }
  const std::string cname = type == "linear" ? "LinSpline" : (type == "cubic" ? "CubicSpline" : "AkimaSpline");
  if (type == "cubic" && bc == "periodic" && known("CubicSpline::Interpolate/periodic")) {
    r.discard = true;  // C12 finding: singular system, coefficients are garbage
    return r;
  }
  auto sp = make_spline(type, bc);
  std::vector<double> knots = x;
  try {
    if (mode == "fit") {
      std::vector<double> fg = c.at("fitgrid").get<std::vector<double>>();
      sp->GenerateGrid(fg[0], fg[2], fg[1]);
      sp->Fit(to_eigen(x), to_eigen(y));
      knots.clear();
      for (Index i = 0; i < sp->getX().size(); ++i) knots.push_back(sp->getX()(i));
      if (knots.size() < 2 || !analyse(knots).valid) {
        r.discard = true;
        return r;
      }
    } else
      sp->Interpolate(to_eigen(x), to_eigen(y));
  } catch (const std::exception &) {
    r.discard = true;  // documented rejections (too few points, fit not implemented, not enough data)
    return r;
  }
  Grid kg = analyse(knots);
  r.cls(type + "/" + bc + "/" + mode);
  r.cls(g.uniform ? "uniform" : "nonuniform");
  r.nontrivial = !g.uniform || x.size() >= 3;
  auto S = [&](double v) { return sp->Calculate(v); };
  size_t nk = knots.size();
  // size of the terms summed in Calculate on piece i: a cubic is bounded by a small multiple of its largest sample
  auto piece_mag = [&](size_t i) {
    ld m = 0;
    for (int q = 0; q <= 8; ++q) {
      double v = S(knots[i] + (knots[i + 1] - knots[i]) * q / 8.0);
      if (std::isfinite(v)) m = std::max(m, (ld)std::fabs(v));
    }
    return 4 * m;
  };
  // magnitude model of the rounding noise in Calculate: eps * (|S| + |S'| |x|) (LinSpline evaluates a*r+b)
  auto check = [&](double xe, const ND &n, const char *where, size_t piece) {
    double got = sp->CalculateDerivative(xe);
    if (!n.finite || !std::isfinite(got)) {
      // non-finite coefficients are a C12 matter (periodic cubic); nothing to differentiate here
      r.cls("non-finite-spline");
      return true;
    }
    ld noise = 64 * (ld)EPS * (n.fmag + piece_mag(piece) + fabsl(n.d) * ((ld)kg.xabs + (ld)kg.hmax)) / n.hmin + 1e-300L * (1 + 1 / (ld)n.hmin);
    ld tol = 100 * n.err + 1e-7L * fabsl(n.d) + noise;
    if (fabsl((ld)got - n.d) <= tol) return true;
    r.fail(cname + "::CalculateDerivative", fmt("%s x=%.17g: CalculateDerivative=%.12g numerical=%.12Lg (+-%.3Lg, noise %.3Lg)", where, xe, got, n.d,
                                                n.err, noise));
    return false;
  };
  // interior points of intervals (all intervals up to 40, then a stride), plus generated evaluation points
  size_t stride = std::max<size_t>(1, (nk - 1) / 40);
  for (size_t i = 0; i + 1 < nk; i += stride) {
    double h = knots[i + 1] - knots[i];
    for (double fr : {0.5, 0.125}) {
      double xe = knots[i] + fr * h;
      double hh = std::min(xe - knots[i], knots[i + 1] - xe) * 0.75;
      if (!(hh > 1024 * EPS * std::fabs(xe))) continue;
      if (!check(xe, nd_central(S, xe, hh), "inside", i)) return r;
    }
  }
  for (double xe : c.at("ev").get<std::vector<double>>()) {
    // piece that contains xe; pieces 0 and nk-2 continue to -inf / +inf
    size_t i = ref_interval(knots, xe);
    double lo = i == 0 ? -HUGE_VAL : knots[i], hi = i == nk - 2 ? HUGE_VAL : knots[i + 1];
    double room = std::min(xe - lo, hi - xe);
    double h = knots[i + 1] - knots[i];
    if (room > 1e-3 * h) {
      r.cls(xe < knots[0] || xe > knots[nk - 1] ? "eval-outside" : "eval-inside");
      if (!check(xe, nd_central(S, xe, std::min(room * 0.75, h / 4)), "inside", i)) return r;
    }
  }
  // knots: one-sided; the derivative at a kink of a linear spline is either one-sided derivative
  for (size_t i = 0; i < nk; i += stride) {
    double xe = knots[i];
    std::vector<ND> sides;
    ld pm = std::max(piece_mag(std::min(i, nk - 2)), piece_mag(i > 0 ? i - 1 : 0));
    if (i + 1 < nk) sides.push_back(nd_onesided(S, xe, (knots[i + 1] - knots[i]) / 4));
    if (i > 0) sides.push_back(nd_onesided(S, xe, -(knots[i] - knots[i - 1]) / 4));
    if (i == 0) sides.push_back(nd_onesided(S, xe, -(knots[1] - knots[0]) / 4));                // continuation of piece 0
    if (i == nk - 1) sides.push_back(nd_onesided(S, xe, (knots[nk - 1] - knots[nk - 2]) / 4));  // continuation of the last piece
    double got = sp->CalculateDerivative(xe);
    bool anyok = false, anyfinite = false;
    std::string msg;
    for (const ND &n : sides) {
      if (!n.finite || !std::isfinite(got)) continue;
      anyfinite = true;
      ld noise = 64 * (ld)EPS * (n.fmag + pm + fabsl(n.d) * ((ld)kg.xabs + (ld)kg.hmax)) / n.hmin + 1e-300L * (1 + 1 / (ld)n.hmin);
      ld tol = 100 * n.err + 1e-7L * fabsl(n.d) + noise;
      if (fabsl((ld)got - n.d) <= tol) anyok = true;
      msg += fmt(" one-sided %.12Lg (+-%.3Lg, noise %.3Lg)", n.d, n.err, noise);
    }
    r.cls("eval-on-knot");
    if (anyfinite && !anyok) {
      r.fail(cname + "::CalculateDerivative", fmt("knot %zu x=%.17g: CalculateDerivative=%.12g;%s", i, xe, got, msg.c_str()));
      return r;
    }
  }
  return r;
}

static json gen_spline() {
  json c;
  std::string type = pick<std::string>({"linear", "cubic", "akima"});
  std::string mode = (type != "akima" && rbool(25)) ? "fit" : "interp";
  std::string bc = (type != "linear" && mode == "interp" && rbool(30)) ? "periodic" : "natural";
  std::string gk, yk;
  int n = gen_npoints(int(min_points(type)));
  if (mode == "fit") n = std::max(n, 8);
  std::vector<double> x = gen_grid(n, gk);
  std::vector<double> y = gen_ordinates(x, yk);
  if (bc == "periodic") y.back() = y.front();
  c["type"] = type;
  c["bc"] = bc;
  c["mode"] = mode;
  c["x"] = x;
  c["y"] = y;
  c["gridkind"] = gk;
  c["ykind"] = yk;
  if (mode == "fit") {
    // fit grid coarser than the data: about n/3 intervals
    int m = std::max(1, n / ri(3, 6));
    double step = (x.back() - x.front()) / (double(m) + (rbool(50) ? 0.0 : 0.5));
    c["fitgrid"] = {x.front(), step, x.back()};
    // evaluation points are generated from the data grid; run() maps them to fit-grid pieces
  }
  c["ev"] = gen_eval(x);
  return c;
}

int main(int argc, char **argv) {
  std::vector<Sub> subs;
  subs.push_back({"bond", [] { return gen_bonded("bond"); }, run_bonded, 1.0, 100, nullptr});
  subs.push_back({"angle", [] { return gen_bonded("angle"); }, run_bonded, 2.0, 100, nullptr});
  subs.push_back({"dihedral", [] { return gen_bonded("dihedral"); }, run_bonded, 2.0, 100, nullptr});
  subs.push_back({"lj126", [] { return gen_pot("lj126"); }, run_pot, 0.6, 100, nullptr});
  subs.push_back({"ljg", [] { return gen_pot("ljg"); }, run_pot, 1.2, 100, nullptr});
  subs.push_back({"cbspl", [] { return gen_pot("cbspl"); }, run_pot, 0.6, 100, nullptr});
  subs.push_back({"spline_derivative", gen_spline, run_spline, 1.5, 100, nullptr});
  return harness_main(argc, argv, "C07", subs);
}
